#!/bin/bash
# MANIFEST.hooks.baseline_off_cmd: the repository's own test suite with the verif
# build tag OFF (same go test invocation as /root/.vp/BASELINE.json).
export GOFLAGS=-mod=mod GOPROXY=off GOSUMDB=off GOTOOLCHAIN=local
cd /repo && go test -mod=mod -json -vet=off -count=1 -timeout 25m ./...
