#!/usr/bin/env python3
"""One-time helper that produced policy/reviewed_policy.json from the pinned (repaired)
tree's tables in template/sanitizers.go. The JSON file, not this script, is what the C04
monitor trusts: it was reviewed against the property text (typed-only classes, enum word
lists, URL classes, data-* rule, default deny) and is committed; later changes of the
library's tables that make a cell weaker than this file are reported by the monitor."""
import re, json, sys
src = open('/repo/template/sanitizers.go').read()
def block(name):
    i = src.index('var ' + name)
    j = src.index('\n}\n', i)
    return src[i:j]
def flat(name):
    return dict((k, v) for k, v in re.findall(r'"([^"]+)":\s+sanitizationContext(\w+),', block(name)))
def boolset(name):
    return sorted(re.findall(r'"([^"]+)":\s+true', block(name)))
elem_specific = {}
b = block('elementSpecificAttrValSanitizationContext')
for attr, body in re.findall(r'\n\t"([^"]+)": \{(.*?)\n\t\},', b, re.S):
    elem_specific[attr] = dict(re.findall(r'"([^"]+)":\s+sanitizationContext(\w+),', body))
pol = {
 "comment": "Reviewed sanitization policy for property C04. Classes: None (plain strings, HTML-escaped), Identifier/Style/Script/StyleSheet/HTMLValOnly/TrustedResourceURL (typed-only), TrustedResourceURLOrURL and URL (URL sanitizer + normalizer), URLSet, *Enum (listed words only), HTML (escaped, safehtml.HTML verbatim), RCDATA (always escaped). Everything not listed is rejected; data-* attributes (^data-[a-z_][-a-z0-9_]*$) are class None on every element.",
 "element_content": flat('elementContentSanitizationContext'),
 "allowed_void_elements": boolset('allowedVoidElements'),
 "global_attributes": flat('globalAttrValSanitizationContext'),
 "element_specific_attributes": elem_specific,
 "enum_words": {"AsyncEnum": ["async"], "DirEnum": ["auto", "ltr", "rtl"], "LoadingEnum": ["eager", "lazy"], "TargetEnum": ["_blank", "_self"]},
 "link_rel_values_allowing_plain_urls": boolset('urlLinkRelVals'),
}
json.dump(pol, open('/verif/policy/reviewed_policy.json', 'w'), indent=1, sort_keys=True)
print({k: (len(v) if hasattr(v, '__len__') else v) for k, v in pol.items() if k != 'comment'})
