#!/bin/bash
# Re-confirms every seeded change against /repo's HEAD in a scratch worktree under /tmp:
# the repository's suite passes with the patch, the author's demonstration fails with it and
# passes without it. One line per change.
export GOFLAGS=-mod=mod GOPROXY=off GOSUMDB=off GOTOOLCHAIN=local
wt=/tmp/mut/revalidate
rm -rf $wt; git -C /repo worktree prune; git -C /repo worktree add -q --detach $wt HEAD || exit 2
for d in /verif/seeded/*/; do
  sid=$(basename $d)
  if python3 -c "import json,sys;sys.exit(0 if 'obsolete' in json.load(open('$d/meta.json')) else 1)"; then echo "$sid OBSOLETE (see meta.json)"; continue; fi
  pdir=$(python3 -c "import json;print(json.load(open('$d/meta.json'))['demo']['copy_into_package_dir'])")
  prop=$(python3 -c "import json;print(json.load(open('$d/meta.json'))['property'])")
  res=""
  ( cd $wt && git apply $d/patch.diff ) 2>/dev/null || { echo "$sid APPLY-FAILED"; continue; }
  ( cd $wt && go build ./... && go test -vet=off -count=1 ./... >/dev/null 2>&1 ) && res="suite=pass" || res="suite=FAIL"
  cp $d/demo_test.go $wt/$pdir/zz_mutant_demo_test.go
  extra=""; [ "$prop" = C09 ] && grep -qi "race" $d/notes.md 2>/dev/null && extra="-race"
  ( cd $wt && timeout 300 go test $extra -vet=off -count=1 ./$pdir >/dev/null 2>&1 ) && res="$res demo_with=pass(!)" || res="$res demo_with=fail"
  ( cd $wt && git checkout -q -- . && timeout 300 go test $extra -vet=off -count=1 ./$pdir >/dev/null 2>&1 ) && res="$res demo_without=pass" || res="$res demo_without=FAIL(!)"
  rm -f $wt/$pdir/zz_mutant_demo_test.go; ( cd $wt && git checkout -q -- . && git clean -fdq )
  echo "$sid $res"
done
git -C /repo worktree remove --force $wt
