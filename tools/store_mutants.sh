#!/bin/bash
# usage: store_mutants.sh <property> <src dir with mutantN.*> <first index in seeded/> <round> [checks...]
p=$1; src=$2; first=$3; round=$4; shift 4; checks=${*:-$p}
cj=$(python3 -c "import sys,json;print(json.dumps(sys.argv[1:]))" $checks)
for n in 1 2; do m=$((first+n-1)); d=/verif/seeded/$p-m$m; [ -f $src/mutant$n.diff ] || continue; mkdir -p $d; cp $src/mutant$n.diff $d/patch.diff; cp $src/mutant${n}_demo_test.go $d/demo_test.go; cp $src/mutant$n.md $d/notes.md; pk=$(grep -m1 '^package ' $d/demo_test.go | awk '{print $2}'); case "$pk" in template|template_test) pdir=template;; safehtmlutil*) pdir=internal/safehtmlutil;; *) pdir=.;; esac; files=$(grep '^+++ b/' $d/patch.diff | sed 's|+++ b/||' | python3 -c "import sys,json;print(json.dumps([l.strip() for l in sys.stdin]))"); cat > $d/meta.json <<EOT
{
 "id": "$p-m$m",
 "property": "$p",
 "source": "written by an independent sub-agent that saw only the property text and a scratch worktree",
 "files_changed": $files,
 "demo": {
  "file": "demo_test.go",
  "copy_into_package_dir": "$pdir",
  "run": "go test -vet=off -count=1 ./$pdir"
 },
 "needs_to_manifest": "see notes.md (author's description)",
 "confirmed": "tools/try_mutant.sh: existing suite passes with the patch; demo fails with the patch; demo passes without it (scratch worktree under /tmp, removed afterwards)",
 "checks": $cj,
 "round": $round
}
EOT
echo stored $d; done
