#!/bin/bash
# usage: try_mutant.sh <dir with mutantN.diff etc.> <N> <property> [tier]
# 1. confirms in a scratch worktree: suite passes with the mutant, demo fails with it, demo passes without
# 2. applies the mutant to /repo, runs ./check <property> <tier>, undoes it
export GOFLAGS=-mod=mod GOPROXY=off GOSUMDB=off GOTOOLCHAIN=local
d=$1; n=$2; prop=$3; tier=${4:-quick}
wt=/tmp/mut/scratch-$prop-$n
diff=$d/mutant$n.diff; demo=$d/mutant${n}_demo_test.go
[ -f "$diff" ] || { echo "no $diff"; exit 2; }
rm -rf $wt; git -C /repo worktree prune; git -C /repo worktree add -q --detach $wt HEAD || exit 2
pk=$(grep -m1 '^package ' $demo | awk '{print $2}')
case "$pk" in template|template_test) pdir=template;; safehtmlutil*) pdir=internal/safehtmlutil;; *) pdir=.;; esac
res=""
( cd $wt && git apply $diff ) || res="$res APPLY-FAILED"
( cd $wt && go build ./... && go test -vet=off -count=1 ./... >/tmp/mut/suite.log 2>&1 ) && res="$res suite=pass" || res="$res suite=FAIL"
cp $demo $wt/$pdir/zz_mutant_demo_test.go
extra=""; grep -q "race" $d/mutant$n.md 2>/dev/null && [ "$prop" = C09 ] && extra="-race"
( cd $wt && go test $extra -vet=off -count=1 ./$pdir >/tmp/mut/demo_with.log 2>&1 ) && res="$res demo_with=pass(!)" || res="$res demo_with=fail"
( cd $wt && git checkout -q -- . && go test $extra -vet=off -count=1 ./$pdir >/tmp/mut/demo_without.log 2>&1 ) && res="$res demo_without=pass" || res="$res demo_without=FAIL(!)"
git -C /repo worktree remove --force $wt
# now against the checks
cd /verif
git -C /repo apply $diff || { echo "$prop/$n: $res check=APPLY-FAILED"; exit 2; }
out=$(./check $prop $tier 2>&1); rc=$?
git -C /repo checkout -- . ; git -C /repo clean -fdq
nv=$(echo "$out" | grep -c '^VIOLATION')
echo "$prop/$n:$res check_exit=$rc violations=$nv :: $(echo "$out" | grep -m1 '^violation' | cut -c1-220)"
