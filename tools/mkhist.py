#!/usr/bin/env python3
"""Builds a history witness for the C05-C09 monitors.
usage: mkhist.py <out.json> <property> <Kid> <msg> <op> [<op> ...]
ops:  parse:<text>  exect:<name>  execthtml:<name>  tnew:<name>  clone  lookup:<name>  csp  exec  (handles: v0 root; tnew/clone/lookup results go to the next variable and following ops use it unless written  @k:op)"""
import json, sys
def q(s): return json.dumps(s, ensure_ascii=True)
out, prop, kid, msg = sys.argv[1:5]
ops=[{"k":"new","h":-1,"d":0,"n":"root"}]
cur=0; nxt=1
for a in sys.argv[5:]:
    h=cur
    if a.startswith('@'):
        i=a.index(':'); h=int(a[1:i]); a=a[i+1:]
    kind,_,arg=a.partition(':')
    if kind=='parse': ops.append({"k":"parse","h":h,"d":h,"t":arg})
    elif kind in('exect','execthtml'): ops.append({"k":kind,"h":h,"d":-1,"n":arg,"data":0})
    elif kind in('tnew','lookup'): ops.append({"k":kind,"h":h,"d":nxt,"n":arg}); cur=nxt; nxt+=1
    elif kind=='clone': ops.append({"k":"clone","h":h,"d":nxt}); cur=nxt; nxt+=1
    elif kind=='csp': ops.append({"k":"csp","h":h,"d":-1})
    elif kind in('exec','exechtml'): ops.append({"k":kind,"h":h,"d":-1,"data":0})
    else: raise SystemExit("bad op "+a)
data={"S_quoted":[q("a&b"),q("x<y"),q("q r"),q("w"),q("w"),q("w"),q("w"),q("w")],"C":[True,False,True,False],"L_quoted":[[[q("e0"),q("e1")]],[[q("e0"),q("e1")]],[]]}
json.dump({"property":prop,"id":kid,"msg":msg,"case":{"history":{"ops":ops,"data":[data],"nvar":8}}}, open(out,"w"), indent=1)
