#!/usr/bin/env python3
"""Builds witness case files for the template monitors (C01/C02/... share the kase layout).
usage: mkcase.py <out.json> <property> <Kid> <msg> <template> [S0 [S1 [S2 [S3]]]]"""
import json, sys
def q(s): return json.dumps(s, ensure_ascii=True)
out, prop, kid, msg, tmpl = sys.argv[1:6]
vals = sys.argv[6:]
def spec(vs, inert):
    S=[]
    for i in range(8):
        if i < len(vs): S.append(q(("w%d"%(i+1)) if inert and vs[i]!="" and not vs[i].startswith("=") else vs[i].lstrip("=")))
        else: S.append(q("w%d"%(i+20) if inert else "zQ7z"))
    L=[[ [q("w10" if inert else "zQ5z"), q("w11" if inert else "zQ6z")] ] for _ in range(3)]
    return {"S_quoted":S, "C":[True,False,True,False], "L_quoted":L}
case={"template_quoted":q(tmpl), "hostile":spec(vals, False), "inert":spec(vals, True)}
json.dump({"property":prop,"id":kid,"msg":msg,"case":case}, open(out,"w"), indent=1)
