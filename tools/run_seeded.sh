#!/bin/bash
# Applies every seeded change to /repo in turn, runs the quick tier of the checks named in its
# meta.json, undoes the change, and prints one line per (change, check).
# usage: run_seeded.sh [regex over the ids, default all]
cd /verif
filter=${1:-.}
for d in seeded/*/; do
  sid=$(basename $d)
  echo "$sid" | grep -Eq "$filter" || continue
  if python3 -c "import json,sys;sys.exit(0 if 'obsolete' in json.load(open('$d/meta.json')) else 1)"; then echo "$sid OBSOLETE (see meta.json)"; continue; fi
  checks=$(python3 -c "import json;print(' '.join(json.load(open('$d/meta.json'))['checks']))")
  if ! git -C /repo apply /verif/$d/patch.diff 2>/dev/null; then echo "$sid APPLY-FAILED"; continue; fi
  for id in $checks; do
    out=$(./check $id quick 2>&1); rc=$?
    echo "$sid $id exit=$rc violations=$(echo "$out" | grep -c '^VIOLATION')"
  done
  git -C /repo checkout -- . ; git -C /repo clean -fdq
done
