#!/bin/bash
# usage: final_sweep.sh <tier> <seed> [ids...]   runs the checks (4 at a time), prints one line per check
cd /verif
tier=$1; seed=$2; shift 2
ids=${*:-C01 C02 C03 C04 C05 C06 C07 C08 C09 C10 C11 C12 C13 C14 C15 C16 C17 C18 C19 C20}
mkdir -p /tmp/sweep
run() { id=$1; VERIF_SEED=$seed ./check $id $tier > /tmp/sweep/$id.$tier.$seed.log 2>&1; rc=$?; echo "$id $tier seed=$seed exit=$rc violations=$(grep -c '^VIOLATION' /tmp/sweep/$id.$tier.$seed.log) known=$(grep -c '^KNOWN-FINDING' /tmp/sweep/$id.$tier.$seed.log) $(grep -m1 'evaluations=' /tmp/sweep/$id.$tier.$seed.log | sed 's/.*\(evaluations=[0-9]*\).*\(wall=[0-9.a-z]*\).*/\1 \2/')"; }
n=0
for id in $ids; do run $id & n=$((n+1)); if [ $((n % 4)) = 0 ]; then wait; fi; done; wait
