#!/bin/bash
# usage: which_checks.sh <patch.diff> <check ids...>  : applies the patch to /repo, runs each check (quick), undoes it
diff=$1; shift
cd /verif
git -C /repo apply $diff || { echo "APPLY-FAILED"; exit 2; }
for id in "$@"; do
  out=$(./check $id quick 2>&1); rc=$?
  echo "  $id exit=$rc viol=$(echo "$out" | grep -c '^VIOLATION') $(echo "$out" | grep -m1 '^violation' | cut -c1-200)"
done
git -C /repo checkout -- . ; git -C /repo clean -fdq
