#!/bin/bash
# Diagnostic (not a registered check): which generated templates does the pinned snapshot
# (fa244f6) accept that /repo's HEAD refuses, and vice versa?  Builds cmd/accept twice against
# scratch worktrees under /tmp/cmp (removed afterwards) and prints a histogram.
export GOFLAGS=-mod=mod GOPROXY=off GOSUMDB=off GOTOOLCHAIN=local
n=${1:-60000}
rm -rf /tmp/cmp; mkdir -p /tmp/cmp; git -C /repo worktree prune
git -C /repo worktree add -q --detach /tmp/cmp/new HEAD && git -C /repo worktree add -q --detach /tmp/cmp/old fa244f6 || exit 2
cd /verif/harness
for v in old new; do sed "s|=> /repo|=> /tmp/cmp/$v|" go.mod > /tmp/cmp/$v.mod; cp go.sum /tmp/cmp/$v.sum; go build -modfile=/tmp/cmp/$v.mod -o /tmp/cmp/accept-$v ./cmd/accept || exit 3; done
/tmp/cmp/accept-old run $n > /tmp/cmp/old.tsv; /tmp/cmp/accept-new run $n > /tmp/cmp/new.tsv
python3 - <<'PY'
import collections
def load(p):
    d={}
    for l in open(p):
        i,st,h=l.rstrip('\n').split('\t'); d[int(i)]=(st,h)
    return d
old,new=load('/tmp/cmp/old.tsv'),load('/tmp/cmp/new.tsv')
c=collections.Counter()
for i in old:
    o,n=old[i],new[i]
    if o[0]=='ok' and n[0]!='ok': c['accepted before, refused now: '+n[0][:60]]+=1
    elif o[0]!='ok' and n[0]=='ok': c['refused before, accepted now: '+o[0][:60]]+=1
    elif o[0]=='ok' and o[1]!=n[1]: c['accepted by both, output differs']+=1
    elif o[0]=='ok': c['accepted by both, same output']+=1
    else: c['refused by both']+=1
for k,v in c.most_common(): print(v,k)
PY
git -C /repo worktree remove --force /tmp/cmp/new; git -C /repo worktree remove --force /tmp/cmp/old; rm -rf /tmp/cmp
