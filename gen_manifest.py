#!/usr/bin/env python3
"""Regenerates /verif/MANIFEST.json from the table below (kept in one place so that
the manifest is always schema-valid and consistent with what is built)."""
import json, subprocess

HOOK_COMMITS = ["9deeead"]

# property -> (level, technique, level text, level note, design ref)
CLAIMED = {
 "C10": ("exploration",
         "runtime monitor: differential oracle (reference UTF-8 coercion + stdlib unescape + own WHATWG tokenizer) over exhaustive code points / short byte strings and seeded hostile strings",
         "Every executed HTMLEscaped/HTMLConcat call is observed by an oracle that is independent of the library; the finite sub-spaces (all code points, all 1-2 byte strings; thorough: all 3-byte strings with a non-ASCII lead byte) are enumerated completely, longer inputs are sampled. Held on what was executed; nothing is claimed about longer inputs not generated.",
         "Trusted: refs.Coerce (written from Unicode Table 3-7 and the property's forbidden set), Go's html.UnescapeString, the harness' WHATWG tokenizer (self-tested).",
         "DESIGN.md §5 C10"),
}

NOT_YET = "monitor not built yet in this session (planned, see DESIGN.md §5); no claim is made"
ALL = ["C%02d" % i for i in range(1, 21)]

def main():
    checks = []
    for pid in ALL:
        if pid not in CLAIMED:
            continue
        level, tech, text, note, ref = CLAIMED[pid]
        checks.append({
            "property_id": pid,
            "quick_cmd": "./check %s quick" % pid,
            "thorough_cmd": "./check %s thorough" % pid,
            "evidence_file": "/verif/evidence/%s.json" % pid,
            "replay_cmd_template": "./check %s --replay {path}" % pid,
            "engine": "vcheck",
            "level_claimed": {"category": level, "text": text, "design_ref": ref},
            "level_note": note,
            "technique": tech,
        })
    m = {
        "version": 1,
        "setup_cmd": "./setup.sh",
        "hooks": {
            "guard": "verif (Go build tag)",
            "enable": "go build -tags verif (the harness module replaces github.com/google/safehtml by /repo, so every check rebuilds /repo's working tree with the tag on)",
            "baseline_off_cmd": "./baseline_off.sh",
            "source_commits": HOOK_COMMITS,
            "add_only": True,
        },
        "engines": [{
            "name": "vcheck",
            "path": "/verif/harness",
            "serves_properties": [c["property_id"] for c in checks],
            "kind_free_text": "Go runtime-monitoring harness: orchestrator + 16 worker processes per check; generators drive the real library, independent oracles (WHATWG HTML tokenizer, CSS Syntax L3, URL/srcset/UTF-8 references, replay-on-fresh-set reference, Go race detector) observe every execution",
        }],
        "checks": checks,
        "not_applicable": [{"property_id": p, "reason": NOT_YET} for p in ALL if p not in CLAIMED],
        "notes": "exit 0 = held on everything explored; exit 1 + 'VIOLATION property=<id> replay=<path>' = refuted; exit 2 + 'INCONCLUSIVE ...' = no verdict (dead worker, too few observations). Known findings: KNOWN_FINDINGS.txt. VERIF_SEED selects the case lists.",
    }
    json.dump(m, open("/verif/MANIFEST.json", "w"), indent=1)
    print("wrote MANIFEST.json:", len(checks), "checks,", len(m["not_applicable"]), "not_applicable")

if __name__ == "__main__":
    main()
