#!/usr/bin/env python3
"""Regenerates /verif/MANIFEST.json from the table below (kept in one place so that
the manifest is always schema-valid and consistent with what is built)."""
import json, subprocess

HOOK_COMMITS = ["9deeead"]

# property -> (level, technique, level text, level note, design ref)
CLAIMED = {
 "C19": ("other",
         "runtime reflection on the regenerated exported API surface (type identity of constant-gated parameters, exported constants, closedness of safe types) plus dynamic taint probing of every exported function and method (also through run-time file systems) and an override probe of the engine's own pipeline functions",
         "The registry of exported functions/types/variables/aliases is regenerated from /repo's sources at every check and linked in; the monitor observes in the running binary that every reviewed trusted-text parameter has an unexported library-defined string type that nothing exported exposes, that safe types are closed structs, no other exported type (nor string, []byte or a look-alike struct) is convertible to a safe type, and that no exported function or method returns a safe-type value containing a hostile caller string verbatim; ParseFS patterns are checked for confinement. That the compiler rejects non-constant arguments is inferred from the observed types under the Go specification (not observable at run time); the harness also contains, and executes without reflection, the generic-helper program that defeats this gating on Go >= 1.18 (known finding K27).",
         "Trusted: Go assignability/export rules (stated assumption); policy/api_surface.json (reviewed list). A compile-time property cannot be observed by executing code; only its run-time-visible premises are.",
         "DESIGN.md §5 C19"),
 "C09": ("exploration",
         "Go race detector over many short concurrent runs with hook-injected yields, plus per-operation equality with the sequential (fresh set) reference",
         "Each run shares one fresh set among 2-16 goroutines doing first/repeated executions of members with shared helpers and read-only calls; a template function calls back into the set during execution; data of dynamic types not seen before in the process; verif-tagged hooks in the engine log the event order and perturb the schedule; a run whose calls have not all returned after 90 s is a deadlock. Race reports are counted from the detector's log; every operation result is compared with the same call made alone on a fresh set. Held on the schedules that occurred (distinct interleavings are counted in the evidence).",
         "Trusted: Go race detector (no false positives; misses races that do not occur in the executed schedules); sequential reference = engine on a fresh set.",
         "DESIGN.md §5 C09"),
 "C05": ("exploration",
         "runtime monitor over recorded API histories: absolute no-output / tick-probe checks plus comparison with the replay-on-a-fresh-set reference",
         "Generated histories over template sets that contain members whose analysis fails in every listed mode; each Execute*/ExecuteTemplate* call is observed (bytes written, error class, a tick function counting body runs): analysis errors must be sticky, write nothing and never run the body; members whose body is exactly one construct that cannot be contextualized (incl. same-state range re-entry, break/continue inside tags) must fail whatever the engine says on a fresh set; *ToHTML must return the zero HTML with any error.",
         "Trusted: the engine on fresh objects as reference for 'analysis fails'; the tick probe as evidence that a body ran.",
         "DESIGN.md §5 C05"),
 "C06": ("exploration",
         "runtime monitor over recorded API histories: every execution compared (bytes, error-or-not) with the same call on a fresh set rebuilt from the definition calls only",
         "Histories of first and repeated executions of members that share helpers across contexts; the replay reference isolates exactly the effect of history, which is what the property forbids. Further scenarios: every order of first executions of small sets, templates named like (or calling) the context-specific copies whose names are read from DefinedTemplates(), histories near the analysis budget.",
         "Trusted: determinism of the engine on fresh objects (checked: repeated calls are part of the histories).",
         "DESIGN.md §5 C06"),
 "C07": ("exploration",
         "runtime monitor over recorded API histories with an abstract set/lineage model: Parse-after-Execute and Clone-after-Execute must fail; executions equal the per-lineage replay reference",
         "Histories interleave New (of fresh and existing names, before and after execution, with parsing into the result and into the replaced stale handle), Parse, file-based parsing, Clone (several generations), redefinitions on either side, Lookup, Templates and Execute*; the model decides which calls must fail, the replay reference (definition calls of the handle's own lineage only) exposes any leakage between original and clone or any late Parse that took effect. Because a reference that replays Clone and Parse cannot see defects of those calls themselves, three more references are compared: every Clone replaced by a set rebuilt from the definitions made before it (the engine's Clone is not called), an unrelated New+Parse made through the handle just before the call, and Execute against ExecuteTemplate of the handle's own name. A Parse racing with the first Execute on another goroutine must be explained by one of the two sequential orders. Two preludes make the rare shapes frequent: a first execution that fails before any analysis (Execute on a handle declared without a body) followed by Clone of and Parse into that handle, and New over an empty-bodied template followed by a clone and the same empty-main-body Parse into both handles (K110).",
         "Trusted: the abstract model (a set is frozen by the first Execute* call made on any of its handles; New(name)/file-based parsing before that disassociate handles of the name; New after that creates a non-member).",
         "DESIGN.md §5 C07"),
 "C08": ("exploration",
         "runtime monitor: every API call of generated hostile histories runs under recover with a journal and a watchdog; panics, worker deaths and non-returning calls are the refuting events",
         "The widest template grammar and call sequences that keep going after errors; one child process per shard journals each history before running it, so a fatal error leaves its witness. Deep histories probe the bounds of the analysis (nested loops with and without calls, 300000 nested ifs, much text in loops, long template chains) and data that points to itself.",
         "Trusted: Go's recover semantics; a 60 s wall-clock watchdog per history only ends the worker; the journalled case is then run alone in a fresh process (4 min) and counts as a violation only if it fails or hangs there too, otherwise the run is inconclusive for that worker.",
         "DESIGN.md §5 C08"),
 "C03": ("exploration",
         "runtime monitor: typed-vs-plain differential per sanitization cell + token-structure and decoded-value check of every attribute cell (independent tokenizer)",
         "All 53 context cells (incl. end-tag attributes, attribute names split over text nodes, slash separators) x 7 safe types x pointer depth 0-2 x a hostile contents corpus are executed (and seeded soups): outside its own context a typed value must behave exactly like the plain string; in attribute cells no value may change the token structure, and emitted values must decode to the contents.",
         "Trusted: htmltok + DecodeAttrValue; the type/context matrix stated in the property; typed values built with uncheckedconversions.",
         "DESIGN.md §5 C03"),
 "C04": ("exploration",
         "runtime monitor: black-box behaviour classification of every (element, attribute, quoting) cell against a reviewed policy data file; outcomes ranked verbatim < escaped < innocuous < error",
         "Each cell template is executed with a 23-probe vector; the observed outcome rank must be >= the rank the reviewed policy prescribes, conditional element/attribute names (two-way, three-way chains with equal first/last branch, nested joins, void representatives, content after the conditional tag) must be at least as strict as every alternative; a stricter engine never alarms and any weakened table entry, loosened data-* pattern or accepted unquoted/name position does. quick: every listed pair (exhaustive) + 10% sample of the unknown product; thorough: full product of 270 element x 480 attribute names x 2 quotings.",
         "Trusted: policy/reviewed_policy.json (committed, reviewed against the property text); htmltok to read emitted attribute values.",
         "DESIGN.md §5 C04"),
 "C14": ("exploration",
         "runtime monitor: decoded attribute value split into static prefix + f(datum), judged per URL component by independent URL/percent-encoding references; independent must-reject predicate for prefixes",
         "14 URL-typed targets x 2 quotings x structured and grammar-generated prefixes x hostile data: f(datum) must be fully percent-encoded in query/fragment and after TrustedResourceURL prefixes (same scheme/authority, no dot-dot segment with the datum), normalised and idempotent elsewhere; values made of several static pieces and data (helpers with static text at two call sites, range bodies, recursive helpers) are aligned with the author's rendering and every datum is judged by the component the static text before it selects; prefixes that leave the scheme open, contain whitespace/controls (also as references) or end in partial references/escapes must be rejected.",
         "Trusted: htmltok + DecodeAttrValue, refs.Scheme/SafeTRUPrefix/DotDotWithArg, RFC 3986 split.",
         "DESIGN.md §5 C14"),
 "C01": ("exploration",
         "runtime monitor: independent WHATWG tokenizer compares the token structure of hostile / inert / author renderings of generated templates; marker location",
         "Every accepted generated template is executed with hostile and inert assignments; three oracles (data vs inert structure, engine vs text/template rendering of the author's markup, marker containment) judge each execution in three tree-builder modes. Reach comes from the grammar (lexical variants, special elements, control flow that tears tags, helpers) and the edge battery; nothing is claimed for templates or data not generated.",
         "Trusted: htmltok (self-tested), text/template as renderer of the author's markup; hostile and inert assignments share truthiness and list lengths. Known findings K01 (abrupt comments only), K16, K17, K21 are excluded by the syntactic predicates stated in KNOWN_FINDINGS.txt (K28 was repaired and its exclusion removed). A torn-text stream splits static text with template comments.",
         "DESIGN.md §5 C01"),
 "C02": ("exploration",
         "runtime monitor: marker location + whole-value scheme scan of every successful hostile execution (independent tokenizer, character-reference decoder, WHATWG scheme and srcset parsers)",
         "A systematic family (47 element/attribute targets x 2 quotings x 30 static prefixes x 43 shapes of dynamic parts, half of the cells also with their static text torn by template comments, dangerous strings split over the parts) plus grammar-generated templates; each output is tokenized, every marker located, every data-dependent URL attribute decoded and scanned. Violations are code contexts reached by plain strings or a javascript scheme.",
         "Trusted: htmltok + DecodeAttrValue, refs.Scheme/Srcset/SafeTRUPrefix; static prefixes are read off the inert execution of the same template. Outputs are read by three tokenizer modes (plain, scripting for noscript, foreign content for svg/math). Known finding K14 was repaired and its exclusion removed.",
         "DESIGN.md §5 C02"),
 "C11": ("exploration",
         "runtime monitor: WHATWG scheme scanner + character-reference decoder observe every URLSanitized result over exhaustive case-folding/insertion families and seeded URL soups",
         "Each URLSanitized call is judged by an independent WHATWG scheme scanner on the raw and on the character-reference-decoded input, plus the converse (must-keep) clause; the finite families (1024 foldings x ~520 inserted units x 12 positions; all short strings over a URL alphabet) are enumerated, the rest sampled.",
         "Trusted: refs.Scheme (written from the URL Standard), htmltok.DecodeAttrValue + Go html.UnescapeString for decoding.",
         "DESIGN.md §5 C11"),
 "C12": ("exploration",
         "runtime monitor: independent WHATWG srcset parser re-parses every URLSetSanitized result; enumeration of all short strings over a srcset alphabet plus seeded soups",
         "Every result is re-parsed by an independent implementation of 'parse a srcset attribute'; candidates, descriptors, in-order copying, the innocuous fallback and idempotence are checked. All strings up to length 6 (thorough 7) over a 9-symbol alphabet are enumerated.",
         "Trusted: refs.Srcset, refs.Scheme, strconv.ParseFloat as the meaning of 'number'.",
         "DESIGN.md §5 C12"),
 "C13": ("exploration",
         "runtime monitor: results of TrustedResourceURLFormat/Append/WithParams decomposed by an independent marker substitution, RFC 3986 split and dot-segment scan",
         "Every builder call made is compared with an independent substitution/encoding reference and scanned for '..' segments that argument bytes (or an empty argument between dots) take part in, and for a scheme/authority that differs from the format with one-character placeholders; WithParams is checked for component preservation and determinism over rebuilt maps. Systematic prefix x piece x dot-argument products plus seeded formats.",
         "Trusted: refs.SafeTRUPrefix / Enc / DotDotWithArg, RFC 3986 appendix-B regular expression.",
         "DESIGN.md §5 C13"),
 "C15": ("exploration",
         "runtime monitor: every StyleFromProperties result is parsed by an independent CSS Syntax Level 3 declaration-list parser and compared with the expected declarations",
         "Each result is tokenized and parsed by an own CSS Syntax L3 implementation: exact declaration names/order, no ill-formed tokens, value alphabets, URL approval. Every field alone and all pairs of fields over a corpus are enumerated, full assignments are sampled.",
         "Trusted: csssyn (self-tested), refs.Scheme; documented alphabets from style.go comments.",
         "DESIGN.md §5 C15"),
 "C16": ("exploration",
         "runtime monitor: every accepted CSSRule result is parsed by an independent CSS Syntax Level 3 stylesheet parser (one qualified rule, prelude = selector, block = style)",
         "Each accepted (selector, style) is checked on the selector's own tokenisation (no block/rule/comment/ill-formed tokens, balanced brackets) and on the parsed stylesheet. Selector atoms are paired exhaustively, longer selectors are seeded mutations of valid selectors and token soups. Bracket nesting is driven exhaustively to depths 1..70 and around 2^7..2^16 (four opener patterns; a wrong, missing or surplus closer at the outermost, middle and innermost level).",
         "Trusted: csssyn (self-tested).",
         "DESIGN.md §5 C16"),
 "C17": ("exploration",
         "runtime monitor: frame split + JSON re-decoding of every ScriptFromDataAndConstant result against an independent encoding of the same data",
         "Each call with generated (name, data, script) is checked for the exact frame, forbidden characters in the literal, single JSON text, round trip against encoding/json in an independent mode, and for failing (zero Script) on non-identifier names and unencodable data; one case in six is preceded by a call that fails or panics inside a caller-supplied Marshaler (state kept between calls would show).",
         "Trusted: encoding/json Encoder(SetEscapeHTML(false)) / Decoder(UseNumber) as the reference JSON semantics; constant-only parameters are driven via reflect conversion.",
         "DESIGN.md §5 C17"),
 "C18": ("exploration",
         "runtime monitor: byte-level recogniser of [A-Za-z][-_A-Za-z0-9]* judges every result of the Identifier constructors; exhaustive over short byte strings",
         "All byte strings up to length 2 (thorough 3) are fed to both constructors (constant-only parameters via reflect conversion), plus insertions of every byte / Unicode letters, digits, marks into valid identifiers; each non-panicking result must match the grammar and keep the prefix.",
         "Trusted: the harness' own recogniser.",
         "DESIGN.md §5 C18"),
 "C20": ("exploration",
         "runtime monitor: path decomposition (Clean/Join/Dir/Base) of every TrustedSourceFromConstantDir result; exhaustive over short filenames on a hostile alphabet",
         "All filenames up to length 3 (thorough 4) over a 20-symbol alphabet x 8 constant dirs x 5 src values are executed; every accepted result must be the base directory or a direct child whose last element is the filename; families of consecutive calls whose (dir, src) are all splits of one string expose state kept between calls.",
         "Trusted: path/filepath of the host OS for decomposition.",
         "DESIGN.md §5 C20"),
 "C10": ("exploration",
         "runtime monitor: differential oracle (reference UTF-8 coercion + stdlib unescape + own WHATWG tokenizer) over exhaustive code points / short byte strings and seeded hostile strings",
         "Every executed HTMLEscaped/HTMLConcat call is observed by an oracle that is independent of the library; the finite sub-spaces (all code points, all 1-2 byte strings; thorough: all 3-byte strings with a non-ASCII lead byte) are enumerated completely, longer inputs are sampled. Held on what was executed; nothing is claimed about longer inputs not generated.",
         "Trusted: refs.Coerce (written from Unicode Table 3-7 and the property's forbidden set), Go's html.UnescapeString, the harness' WHATWG tokenizer (self-tested).",
         "DESIGN.md §5 C10"),
}

NOT_YET = "monitor not built yet in this session (planned, see DESIGN.md §5); no claim is made"
ALL = ["C%02d" % i for i in range(1, 21)]

def main():
    checks = []
    for pid in ALL:
        if pid not in CLAIMED:
            continue
        level, tech, text, note, ref = CLAIMED[pid]
        checks.append({
            "property_id": pid,
            "quick_cmd": "./check %s quick" % pid,
            "thorough_cmd": "./check %s thorough" % pid,
            "evidence_file": "/verif/evidence/%s.json" % pid,
            "replay_cmd_template": "./check %s --replay {path}" % pid,
            "engine": "vcheck",
            "level_claimed": {"category": level, "text": text, "design_ref": ref},
            "level_note": note,
            "technique": tech,
        })
    m = {
        "version": 1,
        "setup_cmd": "./setup.sh",
        "hooks": {
            "guard": "verif (Go build tag)",
            "enable": "go build -tags verif (the harness module replaces github.com/google/safehtml by /repo, so every check rebuilds /repo's working tree with the tag on)",
            "baseline_off_cmd": "./baseline_off.sh",
            "source_commits": HOOK_COMMITS,
            "add_only": True,
        },
        "engines": [{
            "name": "vcheck",
            "path": "/verif/harness",
            "serves_properties": [c["property_id"] for c in checks],
            "kind_free_text": "Go runtime-monitoring harness: orchestrator + 16 worker processes per check; generators drive the real library, independent oracles (WHATWG HTML tokenizer, CSS Syntax L3, URL/srcset/UTF-8 references, replay-on-fresh-set reference, Go race detector) observe every execution",
        }],
        "checks": checks,
        "not_applicable": [{"property_id": p, "reason": NOT_YET} for p in ALL if p not in CLAIMED],
        "notes": "exit 0 = held on everything explored; exit 1 + 'VIOLATION property=<id> replay=<path>' = refuted; exit 2 + 'INCONCLUSIVE ...' = no verdict (dead worker, too few observations). Known findings: KNOWN_FINDINGS.txt. VERIF_SEED selects the case lists.",
    }
    json.dump(m, open("/verif/MANIFEST.json", "w"), indent=1)
    print("wrote MANIFEST.json:", len(checks), "checks,", len(m["not_applicable"]), "not_applicable")

if __name__ == "__main__":
    main()
