package gen

import (
	"fmt"

	"verif/core"
	"verif/util"
)

// DataSpec is a replayable assignment for a Schema.
type DataSpec struct {
	S []string      `json:"S_quoted"`
	C []bool        `json:"C"`
	L [][][2]string `json:"L_quoted"` // lists of elements with leaves E0,E1
}

// Build makes the data value: root map with S*, C*, L* and N (a copy of the leaves
// without further N, for data-guarded recursion).
func (d DataSpec) Build() map[string]interface{} {
	mk := func() map[string]interface{} {
		m := map[string]interface{}{}
		for i, s := range d.S {
			m[fmt.Sprintf("S%d", i)] = util.Unq(s)
		}
		for i, c := range d.C {
			m[fmt.Sprintf("C%d", i)] = c
		}
		for i, l := range d.L {
			var elems []interface{}
			for _, e := range l {
				elems = append(elems, map[string]interface{}{"E0": util.Unq(e[0]), "E1": util.Unq(e[1])})
			}
			m[fmt.Sprintf("L%d", i)] = elems
		}
		return m
	}
	root := mk()
	n := mk()
	n["N"] = nil
	root["N"] = n
	return root
}

// Strings returns all string leaves (unquoted).
func (d DataSpec) Strings() []string {
	var out []string
	for _, s := range d.S {
		out = append(out, util.Unq(s))
	}
	for _, l := range d.L {
		for _, e := range l {
			out = append(out, util.Unq(e[0]), util.Unq(e[1]))
		}
	}
	return out
}

// MaxS, MaxC, MaxL are the schema bounds of the generator; assignments always cover
// them all so that every reference resolves.
const (
	MaxS = 8
	MaxC = 4
	MaxL = 3
)

// GenData makes a hostile assignment and the inert assignment with the same
// truthiness and list lengths. leaf returns the hostile string for leaf number i
// (never empty unless empty is requested).
func GenData(r *core.Rng, leaf func(i int) string) (hostile, inert DataSpec) {
	n := 0
	next := func() (string, string) {
		n++
		if r.Intn(12) == 0 {
			return util.Q(""), util.Q("")
		}
		h := leaf(n)
		if h == "" {
			h = "x"
		}
		return util.Q(h), util.Q(fmt.Sprintf("w%d", n))
	}
	for i := 0; i < MaxS; i++ {
		h, in := next()
		hostile.S, inert.S = append(hostile.S, h), append(inert.S, in)
	}
	for i := 0; i < MaxC; i++ {
		b := r.Bool()
		hostile.C, inert.C = append(hostile.C, b), append(inert.C, b)
	}
	for i := 0; i < MaxL; i++ {
		k := r.Intn(4)
		var hl, il [][2]string
		for j := 0; j < k; j++ {
			h0, i0 := next()
			h1, i1 := next()
			hl, il = append(hl, [2]string{h0, h1}), append(il, [2]string{i0, i1})
		}
		hostile.L, inert.L = append(hostile.L, hl), append(inert.L, il)
	}
	return
}
