// Package gen holds the seeded generators shared by the monitors.
package gen

import (
	"strings"
	"unicode/utf8"

	"verif/core"
)

// HTMLAtoms are the lexical building blocks of hostile strings for HTML contexts.
var HTMLAtoms = []string{
	"<", ">", "\"", "'", "`", "=", "&", "/", " ", "\t", "\n", "\f", "\r", "\x00", "\x7f", "\u0085", "\u00a0",
	"</script", "</script>", "</ScRiPt\f>", "</SCRIPT >", "</textarea>", "</TEXTAREA", "</title>", "</style>", "</Style\n>",
	"-->", "--!>", "<!--", "<!-->", "<!--->", "]]>", "<![CDATA[", "<?", "<!", "</", "<a", "<script>", "<svg>", "<img src=x onerror=alert(1)>",
	"&", "&#", "&#x", "&#x3", "&lt", "&lt;", "&amp;", "&colon;", "&Tab;", "&NewLine;", "&#58;", "&#x3a", "&#0;", "&#xD800;", "&quot", "&apos;", "&gt",
	" onclick=", " onmouseover=alert(1) ", " style=", " href=", " x=\"y\"", "\" x=\"", "' x='", "\">", "'>", " />", "/>",
	"javascript:", "JaVaScRiPt:", "java\tscript:", " javascript:", "\x01javascript:", "data:text/html,", "vbscript:", "alert(1)",
	"\xff", "\xc0\xaf", "\xe0\x80\xaf", "\xed\xa0\x80", "\xf4\x90\x80\x80", "\xc3", "\xe2\x82", "\x80", "\xbf", "\xf0\x9f\x98",
	"\ufdd0", "\ufffe", "\uffff", "\U0001fffe", "\U0010ffff", "\u2028", "\u2029", "\ufeff", "\u202e", "\u212a", "\u0130", "\u017f",
	"é", "日本", "😀", "a", "b", "Z", "0", "9", "-", "_", ".", ":", ";", ",", "%", "%00", "%2e", "%2E", "%zz", "\\", "|", "{", "}", "(", ")", "[", "]", "*", "+", "~", "^", "$", "@", "!", "#", "?",
	"{{", "}}", "{{.}}", "${", "`${x}`",
}

// URLAtoms are building blocks for URL-ish strings.
var URLAtoms = []string{
	"javascript:", "JAVASCRIPT:", "jAvAsCrIpT:", "java", "script:", "script", ":", "alert(1)", "javascript&colon;", "javascript&#58;", "java&Tab;script:", "java&#x09;script:",
	"http://", "https://", "//", "/", "\\", "\\\\", "mailto:", "data:", "about:blank", "ftp:", "x:", "a-b+c.d:", "1:", "+:", "-:", ".:",
	"example.com", "evil.example", "host:8080", "user@host", "[::1]", "..", ".", "%2e", "%2E", "%2e%2e", "%2E.", ".%2e", "%", "%2", "%zz", "%00", "%0a", "%09", "%20", "%252e",
	"?", "#", "&", "=", "&amp;", "a=b", "q=1&r=2", ";", ",", " ", "\t", "\n", "\r", "\f", "\x00", "\x01", "\x1f", "\x7f", "\u0080", "\u0085", "\u00a0", "\u2028", "\ufeff", "\u212a", "\u0131", "\u017f", "\u0130",
	"a", "b", "z", "A", "0", "9", "-", "_", "~", "!", "$", "'", "(", ")", "*", "+", "@", "[", "]", "<", ">", "\"", "`", "{", "}", "|", "^", "é", "日", "\xff", "\xc3", "\xed\xa0\x80",
}

// CSSAtoms are building blocks for CSS-ish strings.
var CSSAtoms = []string{
	";", ":", "{", "}", "(", ")", "[", "]", "\"", "'", "\\", "/", "*", "/*", "*/", "//", "@", "!", "<", ">", "</style>", "<!--", "-->", "\n", "\r", "\f", "\t", " ", "\x00", "\x7f", "\u0080",
	"url(", "url(\"", "URL(", "u\\72l(", "expression(", "@import", "!important", "\\\n", "\\\"", "\\'", "\\0", "\\3b ", "\\00003b", "\\;", "\\}", "\\{", ",", ".", "#", "%", "+", "-", "_", "=", "^", "$", "|", "~", "&",
	"red", "10px", "1em", "100%", "#fff", "auto", "none", "block", "inherit", "a", "b", "x", "0", "9", "é", "日", "\xff", "\u2028", "\u2029", "javascript:", "http://x/", "background", "color:red", "a{b:c}",
}

// Soup builds a string of n atoms.
func Soup(r *core.Rng, atoms []string, n int) string {
	var b strings.Builder
	for i := 0; i < n; i++ {
		b.WriteString(atoms[r.Intn(len(atoms))])
	}
	return b.String()
}

// RandBytes returns n random bytes biased towards interesting ones.
func RandBytes(r *core.Rng, n int) string {
	b := make([]byte, n)
	for i := range b {
		switch r.Intn(6) {
		case 0:
			b[i] = byte(r.Intn(256))
		case 1:
			b[i] = byte(0x80 + r.Intn(128))
		case 2:
			b[i] = byte(r.Intn(0x21))
		default:
			b[i] = byte(0x20 + r.Intn(0x5f))
		}
	}
	return string(b)
}

// RandRune returns a random code point from interesting classes.
func RandRune(r *core.Rng) rune {
	switch r.Intn(10) {
	case 0:
		return rune(r.Intn(0x20))
	case 1:
		return rune(0x7f + r.Intn(0x21))
	case 2:
		return rune(0xFDD0 + r.Intn(0x20))
	case 3:
		return rune(r.Intn(17))<<16 | rune(0xFFFE+r.Intn(2))
	case 4:
		return rune(0x10000 + r.Intn(0x100000))
	case 5:
		return rune(0x800 + r.Intn(0xF800))
	case 6:
		return rune(0x80 + r.Intn(0x780))
	default:
		return rune(0x20 + r.Intn(0x5f))
	}
}

// Mutate applies a few random edits to s.
func Mutate(r *core.Rng, s string, atoms []string) string {
	for k := 1 + r.Intn(3); k > 0; k-- {
		pos := 0
		if len(s) > 0 {
			pos = r.Intn(len(s) + 1)
		}
		switch r.Intn(5) {
		case 0: // insert atom
			s = s[:pos] + atoms[r.Intn(len(atoms))] + s[pos:]
		case 1: // insert random rune
			var buf [4]byte
			n := utf8.EncodeRune(buf[:], RandRune(r))
			s = s[:pos] + string(buf[:n]) + s[pos:]
		case 2: // insert raw byte
			s = s[:pos] + string([]byte{byte(r.Intn(256))}) + s[pos:]
		case 3: // delete
			if pos < len(s) {
				s = s[:pos] + s[pos+1:]
			}
		case 4: // duplicate a slice
			if len(s) > 0 {
				a := r.Intn(len(s))
				b := a + r.Intn(len(s)-a) + 1
				s = s[:pos] + s[a:b] + s[pos:]
			}
		}
		if len(s) > 4096 {
			s = s[:4096]
		}
	}
	return s
}

// Hostile returns a hostile string for HTML contexts.
func Hostile(r *core.Rng) string {
	switch r.Intn(8) {
	case 0:
		return RandBytes(r, r.Intn(12))
	case 1:
		return Mutate(r, Soup(r, HTMLAtoms, 1+r.Intn(4)), HTMLAtoms)
	default:
		return Soup(r, HTMLAtoms, 1+r.Intn(6))
	}
}

// BoundaryLens are lengths around powers of two and common buffer sizes, for inputs in which
// the interesting part sits at a particular offset.
func BoundaryLens() []int {
	var out []int
	for n := 0; n <= 70; n++ {
		out = append(out, n)
	}
	for _, p := range []int{127, 255, 511, 1023, 2047, 4095, 8191, 16383, 32767, 65535} {
		out = append(out, p-1, p, p+1, p+2)
	}
	return out
}

// Pad returns n bytes made of repetitions of unit.
func Pad(unit string, n int) string {
	if unit == "" || n <= 0 {
		return ""
	}
	return strings.Repeat(unit, n/len(unit)+1)[:n]
}
