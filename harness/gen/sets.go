package gen

import (
	"fmt"
	"strings"

	"verif/core"
)

// SetOpts tunes the template-set generator used by the history monitors.
type SetOpts struct {
	Members     int  // number of named members m0..m(n-1)
	FailMembers int  // how many members get a body whose contextual analysis fails
	Wild        bool // C08: anything text/template parses (break/continue, odd HTML soup)
	SharedHelpers bool
}

// Set is a generated template set: definition texts (to be parsed in order) and the names
// of its members.
type Set struct {
	Texts   []string // each is passed to one Parse call
	Members []string
	Helpers []string
	// Failing lists members whose body was chosen from the failing list (analysis of them, and
	// of their callers, is expected to fail; the monitors do not rely on this list).
	Failing []string
	// MustFail lists members whose body is exactly one failing construct with no calls around it.
	MustFail []string
	Modes   []string // failure modes used
}

// failing bodies by mode. They refer to root data through $ like every generated body.
var failBodies = map[string][]string{
	"branch-mismatch":    {`{{if $.C0}}<a href="{{end}}x`, `{{if $.C1}}<b>{{else}}<b title="{{end}}y`, `<p {{if $.C0}}title="x{{end}}>`},
	"range-reentry":      {`{{range $.L0}}<a title="{{end}}`, `<p>{{range $.L1}}<!--{{end}}</p>`, `{{range $.L0}}<textarea>{{end}}`},
	// the body ends in the state it starts in, but a second iteration must be sanitized differently
	"range-reentry-same-state": {`<a href="{{range $.L0}}{{.E0}}{{end}}">x</a>`, `<img srcset="{{range $.L0}}{{.E0}}{{end}}">`, `<p dir="{{range $.L1}}{{.E0}}{{end}}">x</p>`, `<a href="/x{{range $.L0}}/{{.E0}}?y=1{{end}}">x</a>`, `<form action="{{range $.L0}}{{.E1}}{{end}}"></form>`},
	"break-continue":     {`{{range $.L0}}<script>{{if .E0}}{{break}}{{end}}f();</script>{{end}}{{$.S0}}`, `{{range $.L0}}<a {{if .E0}}{{break}}{{end}}title="x">y</a>{{end}}{{$.S0}}`, `{{range $.L0}}<p title="{{if .E1}}{{continue}}{{end}}">x</p>{{end}}`, `{{range $.L1}}{{break}}{{end}}`},
	"non-text-end":       {`<script>var a = 1;`, `<a href="/x`, `<!-- unfinished`, `<p title='`, `<textarea>abc`, `<style>a{}`, `<b `},
	"disallowed-position": {`<a href={{$.S0}}>x</a>`, `<p onclick="{{$.S0}}">x</p>`, `<x-foo>{{$.S0}}</x-foo>`, `<p {{$.S0}}="y">x</p>`, `<a unknown="{{$.S1}}">x</a>`, `<object data="{{$.S0}}"></object>`, `<p style=color:{{$.S0}}>`},
	"unsafe-url-prefix":  {`<a href="javascript:{{$.S0}}">x</a>`, `<a href="java{{$.S0}}">x</a>`, `<a href="{{if $.C0}}/a/{{else}}/b?q={{end}}{{$.S0}}">x</a>`, `<a href="/x y/{{$.S0}}">x</a>`, `<a href="/p?q=%{{$.S0}}">x</a>`, `<a href="/p&amp{{$.S0}}">x</a>`, `<script src="http://h/{{$.S0}}"></script>`, `<a href="{{$.S0}}{{$.S1}}">x</a>`, `<a href="{{$.S0}}:x">y</a>`},
	"co-recursion":       {`{{template "cy" $}}"></a>`, `{{template "cz" $}}x"></a>`, `<p>{{template "cy" $}}</p>`},
	"empty-callee":       {`a{{template "emptyT" $}}b`, `<p>{{template "emptyT"}}</p>`},
	"undefined-callee":   {`a{{template "nope" $}}b`, `<p>{{template "missing"}}</p>`, `before{{if $.C0}}{{template "nope" $}}{{end}}after`, `{{range $.L0}}<i>{{template "missing" .}}</i>{{end}}x`, `{{with $.N}}{{template "nope" .}}{{end}}y`, `{{if $.C1}}x{{else}}{{template "nope"}}{{end}}`},
	"predefined-escaper": {`{{$.S0 | html | print}}`, `<a title={{$.S0 | html}}>`},
	"recursion":          {`{{if $.N}}{{template "SELF" $.N}}{{end}}<a `, `{{with $.N}}{{template "SELF" .}}{{end}}<p title="`},
	"bad-html":           {`<a href='x"y={{$.S0}}`, `<p title=a"b>{{$.S0}}`, `<a b='c'"d>`},
}

// FailBody returns a random body whose contextual analysis fails.
func FailBody(r *core.Rng) string {
	modes := []string{}
	for m := range failBodies {
		modes = append(modes, m)
	}
	sortStrings(modes)
	b := r.Pick(failBodies[modes[r.Intn(len(modes))]])
	return strings.ReplaceAll(b, "SELF", "root")
}

// RuntimeFailBodies produce output first and then a run-time sanitizer error.
var RuntimeFailBodies = []string{
	`<p>partial output</p><script>{{$.S0}}</script>`,
	`<b>before</b><p id="{{$.S0}}">x</p>`,
	`ok so far <a dir="{{$.S1}}">x</a>`,
	`<i>x</i><script src="/js/{{$.DOTS}}"></script>`,
	`<ul>{{range $.L0}}<li>{{.E0}}</li>{{end}}</ul><style>{{$.S0}}</style>`,
}

var wildBodies = []string{
	`{{range $.L0}}{{break}}{{end}}`, `{{range $.L0}}{{.E0}}{{continue}}{{end}}`, `{{range $.L0}}{{if $.C0}}{{break}}{{end}}<b>{{.E0}}</b>{{end}}`,
	`{{/* only a comment */}}`, ``, ` `, `{{- "" -}}`, `{{with $x := $.S0}}{{$x}}{{end}}`, `{{$a := 1}}{{$a = 2}}{{$a}}`, `{{block "blk" $}}<b>{{$.S0}}</b>{{end}}`,
	`{{template "m0" $}}{{template "m0" $}}`, `{{printf "%v" $}}`, `{{index $.L0 0}}`, `{{len $.L0}}`, `{{$.S0 | printf "%q"}}`, `{{html $.S0 $.S1}}`, `{{urlquery $.S0 "x"}}`,
	`{{if and $.C0 $.C1}}a{{else if or $.C0 $.C1}}b{{else}}c{{end}}`, `{{not $.C0}}`, `{{eq $.S0 "x"}}`, `{{nil}}`, `{{.Missing.Deep}}`, `{{$.S0.Nope}}`, `{{call $.S0}}`, `{{template "m1" .Nope}}`,
	"<a href=\"{{$.S0}}\" href=\"{{$.S1}}\">", "<<<>>>", "<a <b> c>", "<a =>", "</>", "<!>", "<!-", "<!--", "-->", "<a b=\"", "<a b='", "<a b=", "<a b", "<a ", "<a", "<", "&", "&#", "<script>`${{{$.S0}}}`</script>", "<script>`</script>", "<script>${`</script>",
	"<textarea><script>{{$.S0}}</textarea>", "<title>{{$.S0}}", "<svg><script>{{$.S0}}</script></svg>", "<math><mi>{{$.S0}}</mi></math>", "<plaintext>{{$.S0}}", "<xmp>{{$.S0}}</xmp>", "<iframe srcdoc=\"{{$.S0}}\">", "<a href=\"{{$.S0}}\"\x00>", "\x00{{$.S0}}\x00", "\xff\xfe{{$.S0}}",
	`{{template "root" $}}`,
	`<!-- a --! b -->{{$.S0}}`, `<!-- x --!{{$.S0}}-->`, `<!--{{$.S0}}--!`, `<!-- --!`, `<!----!--->x`, `<p><!-- c --! --!> d -->{{$.S0}}</p>`,
}

var ahBodies = []string{`" title="y`, `x" href="/b`, `" dir="`, `' title='`, `">x</a><a href="/c`, ``, `tr`, ` bookmark`, `:`, `quest;`, `amp`, `/b`, `x`, `{{$.S0}}`, `x{{$.S1}}`, `{{if $.C0}}{{end}}`, `?q=`, `#`, `.`, `%2`, ` `, `javascript:`, `{{with $.N}}{{template "ah" .}}{{end}}x`, `/{{$.S0}}{{with $.N}}{{template "ah" .}}{{end}}`}

// ahSites are attribute values with a call (@) of the helper "ah".
var ahSites = []string{
	`<a href="@">x</a>`, `<a href="/a@{{$.S1}}">x</a>`, `<a href="/a&@{{$.S1}}">x</a>`, `<a href="/a?b&@{{$.S1}}">x</a>`, `<a href="{{$.S0}}@:x">x</a>`, `<a href="{{$.S0}}@{{$.S1}}">x</a>`,
	`<a href="{{if $.C0}}/a{{else}}/b{{end}}@">x</a>`, `<a href="{{if $.C1}}/a{{else}}/b{{end}}@:x">x</a>`, `<a href="{{if $.C1}}{{$.S0}}x{{else}}{{$.S0}}{{end}}@:alert(1)">x</a>`, `<a href="{{$.S0}}{{if $.C0}}/{{end}}@">x</a>`,
	`<a href="{{if $.C0}}{{else}}java{{end}}@">x</a>`, `<a href="ja@">x</a>`, `<a href="javascript:alert(@)">x</a>`, `<a href="/b c/@">x</a>`, `<a href="/p?q=%@">x</a>`, `<a href="/p?q=@">x</a>`, `<a href="/p#@">x</a>`,
	`<p dir="l@">x</p>`, `<p dir="@">x</p>`, `<p dir="{{$.S1}}@">x</p>`, `<p dir="{{if $.C0}}{{else}}x{{end}}@">x</p>`, `<img srcset="/a@">`, `<img srcset="{{$.S0}}@">`, `<img srcset="@">`,
	`<link rel="icon@" href="{{$.S2}}">`, `<link rel="stylesheet@" href="{{$.S2}}">`, `<link rel="{{$.S1}}@" href="{{$.S2}}">`, `<link rel="@" href="{{$.S2}}">`,
	`<p title="a long static prefix of the value @">x</p>`, `<a href="/a/long/static/prefix/of/the/value/@">x</a>`, `<p dir="ltr and more text@">x</p>`,
	`<p title="x@">x</p>`, `<p title="{{$.S0}}@{{$.S1}}">x</p>`, `<p title="{{if $.C0}}{{$.S0}}/{{else}}{{$.S0}}?{{end}}@">x</p>`, `<p style="color:red;&am@">x</p>`, `<p style="@">x</p>`,
	`<script src="/a/.@"></script>`, `<script src="https://example.com@"></script>`, `<script src="https://example.com/@"></script>`, `<iframe src="/a/@./b"></iframe>`,
	`<s{{/**/}}cript>@</script>`, `<p>@</p>`, `<textarea>@</textarea>`, `<object>@</object>`, `<object><b>@</b></object>`,
}

// GenSet generates a template set.
func GenSet(r *core.Rng, o SetOpts) Set {
	if o.Members == 0 {
		o.Members = 3 + r.Intn(3)
	}
	var s Set
	base := TmplOpts{Lexical: 15, Control: 35, Helpers: 0, Tear: 10, Odd: 5, BadPos: 3, MaxDepth: 2, NoStrayLT: true}
	g := &tgen{r: r, o: base, feats: map[string]bool{}}
	g.sc = Schema{Strings: 3, Bools: 2, Lists: 2}
	// shared helpers: context-preserving, context-changing and leaf helpers
	var defs strings.Builder
	nh := 1 + r.Intn(3)
	var leafs, blocks, statics, ctxOnly []string
	for i := 0; i < nh; i++ {
		name := fmt.Sprintf("h%d", i)
		var body string
		switch r.Intn(7) {
		case 6:
			// fails when executed directly (text context), fine inside an attribute value,
			// a textarea or a title
			body = r.Pick([]string{`<b {{$.S0}}>`, `<a href={{$.S0}}>x</a>`, `<p {{$.S1}}=x>`, `<i on{{$.S0}}=y>`, `<a b=c'd>{{$.S0}}`})
			ctxOnly = append(ctxOnly, name)
		case 0:
			body = r.Pick([]string{`<a href="`, `<b title="x`, `<script>`, `<textarea>`, `<p `, `">`, `</script>`, `</textarea>`, `<p title='`})
			blocks = append(blocks, name)
		case 1, 2:
			body = r.Pick([]string{"{{.}}", "{{.}}", "x{{.}}", "{{. | html}}", "{{print .}}"})
			leafs = append(leafs, name)
		case 3:
			if r.Bool() {
				// static text only, with characters the escaper rewrites in some contexts
				body = r.Pick([]string{"1 < 2", "a <b> c < d", "<!-- c -->x", "x < y && y > z", "a &amp; b <", "<i>s</i>"})
				statics = append(statics, name)
			} else {
				body = `<b>{{$.S0}}</b>`
				blocks = append(blocks, name)
			}
		default:
			body = g.items(1 + r.Intn(2))
			blocks = append(blocks, name)
		}
		defs.WriteString(`{{define "` + name + `"}}` + body + `{{end}}`)
		s.Helpers = append(s.Helpers, name)
	}
	// co-recursive helper pairs: one whose end context cannot be computed, one that is fine
	defs.WriteString(`{{define "cy"}}{{with $.N}}{{template "cz" .}}{{end}}<a title="{{end}}{{define "cz"}}{{template "cy" $}}{{end}}`)
	defs.WriteString(`{{define "cy2"}}{{with $.N}}{{template "cz2" .}}{{end}}<i>{{$.S0}}</i>{{end}}{{define "cz2"}}<b>{{template "cy2" $}}</b>{{end}}`)
	// a tiny helper that is called from attribute values whose texts and flags differ in ways
	// that the name of the callee's copy has to reflect
	attrSites := 0
	if r.Intn(3) == 0 {
		defs.WriteString(`{{define "ah"}}` + r.Pick(ahBodies) + `{{end}}`)
		attrSites = 2 + r.Intn(2)
	}
	failSet := map[int]string{}
	modes := []string{}
	for m := range failBodies {
		modes = append(modes, m)
	}
	// deterministic order of map keys
	sortStrings(modes)
	for len(failSet) < o.FailMembers && len(failSet) < o.Members {
		failSet[r.Intn(o.Members)] = modes[r.Intn(len(modes))]
	}
	for i := 0; i < o.Members; i++ {
		name := fmt.Sprintf("m%d", i)
		s.Members = append(s.Members, name)
		var body string
		pure := false
		switch {
		case failSet[i] != "":
			body = r.Pick(failBodies[failSet[i]])
			body = strings.ReplaceAll(body, "SELF", name)
			if r.Intn(2) == 0 {
				body = g.items(1) + body
			} else {
				// the body is exactly the failing construct, and nothing is called around it: by
				// construction its analysis must fail whatever else the set contains
				pure = true
				s.MustFail = append(s.MustFail, name)
			}
			s.Failing = append(s.Failing, name)
			s.Modes = append(s.Modes, failSet[i])
		case o.Wild && r.Intn(2) == 0:
			body = r.Pick(wildBodies)
			// calls stay acyclic: references to m0/m1 are redirected to the previous member
			prev := ""
			if i > 0 {
				prev = fmt.Sprintf(`{{template "m%d" $}}`, i-1)
			}
			body = strings.ReplaceAll(body, `{{template "m0" $}}`, prev)
			if i <= 1 {
				body = strings.ReplaceAll(body, `{{template "m1" .Nope}}`, "")
			}
			if strings.HasPrefix(body, `{{define "m0"}}`) && i == 0 {
				body = "redefinition skipped"
			}
			if r.Intn(2) == 0 {
				body += g.items(1)
			}
		case r.Intn(6) == 0:
			body = r.Pick(RuntimeFailBodies)
		default:
			body = g.items(1 + r.Intn(3))
		}
		if len(leafs) > 0 && failSet[i] == "" && r.Intn(5) == 0 {
			l := leafs[r.Intn(len(leafs))]
			good := []string{`<p dir="{{template "` + l + `" $.S1}}">x</p>`, `<a href="{{template "` + l + `" $.S2}}">x</a>`, `<img srcset="{{template "` + l + `" $.S2}}">`, `<a target="{{template "` + l + `" $.S1}}">x</a>`}
			bad := []string{`<p dir="{{$.S0}}{{template "` + l + `" $.S1}}">x</p>`, `<a href="{{$.S0}}{{template "` + l + `" $.S1}}">x</a>`, `<img srcset="{{$.S0}}{{template "` + l + `" $.S1}}">`, `<a target="x{{template "` + l + `" $.S1}}">x</a>`, `<a href="java{{template "` + l + `" $.S1}}">x</a>`}
			if r.Bool() {
				body = r.Pick(good)
			} else {
				body = r.Pick(bad)
				s.Failing = append(s.Failing, name)
				s.Modes = append(s.Modes, "call-after-action")
			}
		}
		if attrSites > 0 && failSet[i] == "" && i >= o.Members-attrSites {
			body = strings.ReplaceAll(r.Pick(ahSites), "@", `{{template "ah" $}}`)
			if r.Intn(3) == 0 {
				body = g.items(1) + body
			}
			pure = true // no further calls around it
		}
		if len(ctxOnly) > 0 && failSet[i] == "" && !pure && r.Intn(3) == 0 {
			h := ctxOnly[r.Intn(len(ctxOnly))]
			body += r.Pick([]string{`<input value="{{template "` + h + `" $}}">`, `<textarea>{{template "` + h + `" $}}</textarea>`, `<p title="{{template "` + h + `" $}}">t</p>`, `<title>{{template "` + h + `" $}}</title>`})
		}
		if r.Intn(12) == 0 && failSet[i] == "" && !pure {
			body += `{{template "cz2" $}}`
		}
		// calls: earlier members (acyclic) and shared helpers
		for k := r.Intn(3); k > 0 && !pure; k-- {
			var call string
			if i > 0 && r.Intn(2) == 0 {
				call = fmt.Sprintf(`{{template "m%d" $}}`, r.Intn(i))
			} else {
				if len(leafs) > 0 && (len(blocks) == 0 || r.Bool()) {
					h := leafs[r.Intn(len(leafs))]
					switch r.Intn(4) {
					case 0:
						call = `<p title="` + `{{template "` + h + `" $.S1}}` + `">t</p>`
					case 1:
						call = `<a href="/p?q={{template "` + h + `" $.S2}}">q</a>`
					case 2:
						call = `<textarea>{{template "` + h + `" $.S0}}</textarea>`
					default:
						call = `{{template "` + h + `" $.S0}}`
					}
				} else if len(blocks) > 0 {
					call = `{{template "` + blocks[r.Intn(len(blocks))] + `" $}}`
				}
				if len(statics) > 0 && r.Intn(3) == 0 {
					h := statics[r.Intn(len(statics))]
					call = r.Pick([]string{`<p>{{template "` + h + `"}}</p>`, `<script>if ({{template "` + h + `"}}) f();</script>`, `<textarea>{{template "` + h + `"}}</textarea>`, `<p title="{{template "` + h + `"}}">t</p>`, `<title>{{template "` + h + `"}}</title>`, `{{template "` + h + `"}}`})
				}
			}
			if r.Bool() {
				body = body + call
			} else {
				body = call + body
			}
		}
		defs.WriteString(`{{define "` + name + `"}}{{tick}}` + body + `{{end}}`)
	}
	// split into one or two Parse calls
	all := defs.String()
	if r.Intn(3) == 0 {
		if i := strings.Index(all[len(all)/2:], `{{define "`); i >= 0 {
			cut := len(all)/2 + i
			s.Texts = []string{all[:cut], all[cut:]}
			return s
		}
	}
	s.Texts = []string{all}
	return s
}

func sortStrings(a []string) {
	for i := 1; i < len(a); i++ {
		for j := i; j > 0 && a[j] < a[j-1]; j-- {
			a[j], a[j-1] = a[j-1], a[j]
		}
	}
}
