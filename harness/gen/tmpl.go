package gen

import (
	"fmt"
	"strings"

	"verif/core"
)

// ---------------------------------------------------------------------------
// Template generator. It emits template *text* (with {{define}} blocks) together
// with a data schema: the names of string leaves, booleans and lists that the
// template refers to. Monitors derive hostile and inert assignments from the schema.
//
// Scoping rule: every action refers to root fields through "$" ($.S3, $.C1, $.L2),
// except inside {{range $.Lk}} bodies where the element's leaves are .E1/.E2, so that
// helpers can be called with "." = root everywhere ({{template "h" $}}).
// ---------------------------------------------------------------------------

// Schema describes the data a template uses.
type Schema struct {
	Strings int // leaves S0..S(n-1)
	Bools   int // C0..
	Lists   int // L0.. ; each element has leaves E0,E1
}

// TmplOpts tunes the generator.
type TmplOpts struct {
	// Weights (0..100) of features.
	Lexical    int  // lexical variation of tags, whitespace, case, quoting
	Control    int  // if/range/with
	Helpers    int  // define/template
	Tear       int  // control structures that tear tags/attributes apart
	Odd        int  // odd constructs: comments, doctype, stray <, svg/math, plaintext...
	BadPos     int  // actions in disallowed positions (names, unquoted values, unknown attrs)
	URLHeavy   bool // prefer URL-valued attributes and multi-part values
	NoStrayLT  bool // do not emit stray '<' / odd comment ends (K01/K17 shapes)
	HelperInAttrOnce bool // K05 exclusion: helpers called from attribute values at most once, leaf bodies
	MaxDepth   int
}

// Tmpl is a generated template program.
type Tmpl struct {
	Text   string // whole text: defines followed by the main body
	Schema Schema
	// HelperAttrCalls counts {{template}} calls placed inside attribute values.
	HelperAttrCalls int
	Features        []string
}

type tgen struct {
	r    *core.Rng
	o    TmplOpts
	sc   Schema
	defs []string // helper names defined so far (callable: acyclic, earlier ones only)
	out  strings.Builder
	defsText strings.Builder
	inRange int
	feats map[string]bool
	helperAttrCalls int
	depth int
}

func (g *tgen) feat(f string) { g.feats[f] = true }

func (g *tgen) chance(w int) bool { return g.r.Intn(100) < w }

// ---- data references

func (g *tgen) strRef() string {
	if g.inRange > 0 && g.r.Intn(2) == 0 {
		return fmt.Sprintf(".E%d", g.r.Intn(2))
	}
	n := g.r.Intn(g.sc.Strings + 1)
	if n == g.sc.Strings {
		if g.sc.Strings < 8 {
			g.sc.Strings++
		} else {
			n = g.r.Intn(g.sc.Strings)
		}
	}
	return fmt.Sprintf("$.S%d", n)
}

func (g *tgen) boolRef() string {
	n := g.r.Intn(g.sc.Bools + 1)
	if n == g.sc.Bools {
		if g.sc.Bools < 4 {
			g.sc.Bools++
		} else {
			n = g.r.Intn(g.sc.Bools)
		}
	}
	return fmt.Sprintf("$.C%d", n)
}

func (g *tgen) listRef() string {
	n := g.r.Intn(g.sc.Lists + 1)
	if n == g.sc.Lists {
		if g.sc.Lists < 3 {
			g.sc.Lists++
		} else {
			n = g.r.Intn(g.sc.Lists)
		}
	}
	return fmt.Sprintf("$.L%d", n)
}

// action returns an action printing one string leaf, with pipeline variation.
func (g *tgen) action() string {
	ref := g.strRef()
	l, rr := "{{", "}}"
	if g.chance(g.o.Lexical / 4) {
		// trim markers only where they cannot eat significant static whitespace: not used
		// (they change the author's text in a way both renderers agree on, so allowed)
		if g.r.Bool() {
			l = "{{- "
		} else {
			rr = " -}}"
		}
		g.feat("trim")
	}
	switch g.r.Intn(14) {
	case 0:
		g.feat("pipe-print")
		return l + "print " + ref + rr
	case 1:
		g.feat("pipe-printf")
		return l + `printf "%s" ` + ref + rr
	case 2:
		g.feat("pipe-html")
		return l + ref + " | html" + rr
	case 3:
		g.feat("pipe-urlquery")
		return l + ref + " | urlquery" + rr
	case 4:
		g.feat("pipe-paren")
		return l + "(" + ref + ")" + rr
	case 5:
		g.feat("comment-action")
		return "{{/* c */}}" + l + ref + rr
	case 6:
		g.feat("var")
		return "{{$v := " + ref + "}}" + l + "$v" + rr
	}
	return l + ref + rr
}

// ---- lexical helpers

func (g *tgen) ws() string { return g.wsx(true) }

// wsTag is the white space directly after a tag name: Unicode-only spaces there change which
// element a browser sees (known finding K28), so they are generated rarely.
func (g *tgen) wsTag() string { return g.wsx(g.r.Intn(20) == 0) }

func (g *tgen) wsx(unicodeOK bool) string {
	if !g.chance(g.o.Lexical) {
		return " "
	}
	g.feat("odd-ws")
	if unicodeOK && g.chance(g.o.Odd/2) {
		// code points that Unicode, but not HTML, treats as white space
		g.feat("unicode-ws")
		return g.r.Pick([]string{"\u00a0", "\v", "\u0085", "\u3000", "\u2028", " \u00a0", "\u00a0 ", "\u2003", "\x1c"})
	}
	return g.r.Pick([]string{" ", "\t", "\n", "\f", "\r", "  ", " \n ", "\r\n"})
}

func (g *tgen) optws() string {
	if g.chance(g.o.Lexical / 2) {
		return g.ws()
	}
	return ""
}

func (g *tgen) casing(s string) string {
	if !g.chance(g.o.Lexical / 2) {
		return s
	}
	g.feat("mixed-case")
	b := []byte(s)
	for i := range b {
		if 'a' <= b[i] && b[i] <= 'z' && g.r.Bool() {
			b[i] -= 32
		}
	}
	return string(b)
}

var plainElems = []string{"p", "div", "span", "b", "i", "a", "li", "ul", "td", "tr", "table", "h1", "em", "strong", "section", "label", "button", "form", "pre", "code", "blockquote", "option", "select", "body", "html", "head"}
var voidElems = []string{"br", "hr", "img", "input", "link", "area", "source", "col", "wbr"}
var oddElems = []string{"svg", "math", "xmp", "iframe", "noscript", "noembed", "noframes", "plaintext", "template", "x-custom", "my:elem", "a-b", "h7", "object", "embed", "base", "meta", "frame", "applet", "marquee", "foreignObject", "desc", "mi", "annotation-xml"}

type attrSpec struct {
	name string
	kind string // none url tru enum ident style html urlset bad
	vals []string
}

var attrPool = []attrSpec{
	{"title", "none", nil}, {"alt", "none", nil}, {"class", "none", nil}, {"value", "none", nil}, {"placeholder", "none", nil}, {"data-x", "none", nil}, {"data-foo_bar", "none", nil}, {"aria-label", "none", nil},
	{"lang", "none", nil}, {"width", "none", nil}, {"type", "none", nil}, {"rel", "none", nil}, {"name", "ident", nil}, {"id", "ident", nil}, {"for", "ident", nil},
	{"href", "url", nil}, {"src", "url", nil}, {"action", "url", nil}, {"formaction", "url", nil}, {"srcset", "urlset", nil}, {"cite", "none", nil}, {"poster", "none", nil},
	{"dir", "enum", []string{"ltr", "rtl", "auto"}}, {"target", "enum", []string{"_blank", "_self"}}, {"loading", "enum", []string{"lazy", "eager"}}, {"async", "enum", []string{"async"}},
	{"style", "style", nil}, {"srcdoc", "html", nil}, {"onclick", "bad", nil}, {"onmouseover", "bad", nil}, {"onerror", "bad", nil}, {"xlink:href", "bad", nil}, {"data", "bad", nil}, {"unknownattr", "bad", nil}, {"DATA-X", "none", nil}, {"data-", "bad", nil}, {"background", "bad", nil}, {"manifest", "bad", nil}, {"ping", "bad", nil},
}

var staticAttrVals = []string{"x", "a b", "1", "", "main", "x-y_z", "a&amp;b", "&lt;b&gt;", "it&#39;s", "a=b", "q?", "100%", "&quot;", "a&b", "&amp", "caf&eacute;", "x>y", "a<b"}

var urlPrefixes = []string{
	"/", "/p/", "/p?q=", "/p?a=1&amp;b=", "/p#", "https://example.com/", "https://example.com/a/b?x=", "//example.com/", "http://h/p/", "mailto:", "#", "?", "?q=", "/a/../b/", "/x/.", "/a%2e/", "./", "../",
	"", "", "",
}
var urlPrefixesBad = []string{"javascript:", "JavaScript:", "java", "javascript&colon;", "j&#97;vascript:", "data:", "x", "abc", "ht", "a b/", "/a\tb/", "/p?q=%", "/p?q=%4", "/p?q=&", "/p&lt", "/x&#", "&#x6a;avascript:", " /", "/a&Tab;b/", "/a&#10;b", ":", ":/", "vbscript:", "about:blank"}
var urlSuffixes = []string{"", "", "/x", "?y=1", "#f", "&amp;z=2", ".html", "/", ":", ":8080/", ":/", "&colon;x", "t:x"}

func (g *tgen) quote() string {
	if g.chance(g.o.Lexical) {
		if g.r.Bool() {
			return "'"
		}
		return `"`
	}
	return `"`
}

// dynPart emits one dynamic part for the inside of an attribute value: an action, or
// a control structure / helper call producing actions.
func (g *tgen) dynPart(inAttr bool) string {
	k := g.r.Intn(100)
	switch {
	case k < g.o.Control/3 && g.depth < g.o.MaxDepth:
		g.depth++
		defer func() { g.depth-- }()
		switch g.r.Intn(4) {
		case 0:
			g.feat("attr-if")
			return "{{if " + g.boolRef() + "}}" + g.action() + "{{end}}"
		case 1:
			g.feat("attr-if-else")
			return "{{if " + g.boolRef() + "}}" + g.action() + "{{else}}" + g.attrStatic() + "{{end}}"
		case 2:
			g.feat("attr-range")
			l := g.listRef()
			g.inRange++
			body := g.action()
			if g.r.Bool() {
				body += g.r.Pick([]string{" ", ",", "/", "&amp;", ""})
			}
			g.inRange--
			return "{{range " + l + "}}" + body + "{{end}}"
		default:
			g.feat("attr-with")
			return "{{with " + g.strRef() + "}}{{.}}{{end}}"
		}
	case k < g.o.Control/3+g.o.Helpers/3:
		if h := g.leafHelper(); h != "" && (!g.o.HelperInAttrOnce || g.helperAttrCalls == 0) {
			g.helperAttrCalls++
			g.feat("attr-helper")
			return `{{template "` + h + `" ` + g.strRef() + `}}`
		}
	}
	return g.action()
}

func (g *tgen) attrStatic() string {
	return g.r.Pick(staticAttrVals)
}

// leafHelper defines (or reuses) a helper whose body is a bare action on ".".
func (g *tgen) leafHelper() string {
	name := fmt.Sprintf("leaf%d", g.r.Intn(2))
	for _, d := range g.defs {
		if d == name {
			return name
		}
	}
	g.defs = append(g.defs, name)
	body := "{{.}}"
	if !g.o.HelperInAttrOnce && g.r.Intn(3) == 0 {
		body = g.r.Pick([]string{"{{.}}x", "a{{.}}", "{{.}}{{.}}", "{{. | html}}", "{{print .}}"})
	}
	g.defsText.WriteString(`{{define "` + name + `"}}` + body + `{{end}}`)
	return name
}

// attr emits one attribute (name, optional value with dynamic parts).
func (g *tgen) attr(elem string, dynamic bool) string {
	a := attrPool[g.r.Intn(len(attrPool))]
	if g.o.URLHeavy && g.r.Intn(3) > 0 {
		a = attrPool[15+g.r.Intn(5)]
	}
	if a.kind == "bad" && !g.chance(g.o.BadPos) {
		a = attrPool[g.r.Intn(11)]
	}
	name := g.casing(a.name)
	if !dynamic {
		switch g.r.Intn(6) {
		case 0:
			g.feat("attr-novalue")
			return name
		case 1:
			if g.chance(g.o.Lexical) {
				g.feat("attr-unquoted-static")
				return name + "=" + g.r.Pick([]string{"x", "1", "a-b", "a/b", "x&amp;y"})
			}
		}
		q := g.quote()
		v := g.attrStatic()
		if a.kind == "enum" {
			v = g.r.Pick(a.vals)
		}
		if q == "'" {
			v = strings.ReplaceAll(v, "'", "&#39;")
		}
		eq := "="
		if g.chance(g.o.Lexical / 3) {
			eq = g.optws() + "=" + g.optws()
			g.feat("ws-around-eq")
		}
		return name + eq + q + v + q
	}
	// dynamic value
	if g.chance(g.o.BadPos) {
		switch g.r.Intn(3) {
		case 0:
			g.feat("dyn-unquoted")
			return name + "=" + g.action()
		case 1:
			if g.r.Bool() {
				// attribute name present on one branch only
				g.feat("conditional-attrname-empty")
				return "{{if " + g.boolRef() + "}}" + name + "{{end}}=" + g.r.Pick([]string{`"`, `'`, ``}) + g.action() + g.r.Pick([]string{`"`, ``})
			}
			g.feat("dyn-attrname")
			return g.action() + `="x"`
		default:
			g.feat("dyn-attrname-part")
			return "data-" + g.action() + `="x"`
		}
	}
	q := g.quote()
	var v strings.Builder
	switch a.kind {
	case "url", "urlset":
		pre := g.r.Pick(urlPrefixes)
		if g.chance(g.o.BadPos) {
			pre = g.r.Pick(urlPrefixesBad)
			g.feat("url-bad-prefix")
		}
		if pre != "" {
			g.feat("url-prefix")
		}
		v.WriteString(pre)
		v.WriteString(g.dynPart(true))
		n := 0
		for g.r.Intn(3) == 0 && n < 3 {
			n++
			sep := g.r.Pick([]string{"", "/", "&amp;k=", "?x=", "#", ".", "-", ",", " "})
			if sep == "" {
				g.feat("adjacent-actions")
			}
			v.WriteString(sep)
			v.WriteString(g.dynPart(true))
			g.feat("multi-part")
		}
		v.WriteString(g.r.Pick(urlSuffixes))
	case "enum":
		if g.chance(g.o.BadPos) {
			v.WriteString("x")
			g.feat("enum-partial")
		}
		v.WriteString(g.dynPart(true))
	default:
		if g.r.Intn(2) == 0 {
			v.WriteString(g.r.Pick([]string{"x ", "a&amp;", "pre-", "color:red;", "&lt;", "it&#39;s "}))
		}
		v.WriteString(g.dynPart(true))
		for g.r.Intn(3) == 0 {
			v.WriteString(g.r.Pick([]string{"", " ", "-", "&amp;"}))
			v.WriteString(g.dynPart(true))
			g.feat("multi-part")
		}
		if g.r.Intn(2) == 0 {
			v.WriteString(g.r.Pick([]string{" y", "&gt;", "-suf", ""}))
		}
	}
	val := v.String()
	if q == "'" {
		val = strings.ReplaceAll(val, "'", "&#39;")
	}
	eq := "="
	if g.chance(g.o.Lexical / 3) {
		eq = g.optws() + "=" + g.optws()
		g.feat("ws-around-eq-dynamic")
	}
	return name + eq + q + val + q
}

// startTag emits "<name attrs>".
func (g *tgen) startTag(name string, dynAttrs int) string {
	var b strings.Builder
	b.WriteString("<" + g.casing(name))
	nattr := g.r.Intn(3)
	if g.o.URLHeavy && name == "link" {
		b.WriteString(" " + g.linkRel())
	}
	first := true
	sep := func() string {
		if first {
			first = false
			return g.wsTag()
		}
		return g.ws()
	}
	for i := 0; i < nattr; i++ {
		b.WriteString(sep())
		if g.chance(g.o.Tear) && g.depth < g.o.MaxDepth {
			g.feat("torn-attr")
			b.WriteString("{{if " + g.boolRef() + "}}" + g.attr(name, g.r.Bool()) + "{{else}}" + g.attr(name, false) + "{{end}}")
			continue
		}
		b.WriteString(g.attr(name, false))
	}
	for i := 0; i < dynAttrs; i++ {
		b.WriteString(sep())
		b.WriteString(g.attr(name, true))
	}
	if g.chance(g.o.Lexical / 3) {
		b.WriteString(g.ws())
	}
	if g.chance(g.o.Lexical / 4) {
		g.feat("slash-before-gt")
		b.WriteString("/")
	}
	b.WriteString(">")
	return b.String()
}

var relTokens = []string{"stylesheet", "alternate", "icon", "preload", "prefetch", "author", "next", "canonical", "manifest", "import", "modulepreload", "STYLESHEET", "style&#115;heet", "x"}

func (g *tgen) linkRel() string {
	n := 1 + g.r.Intn(3)
	var toks []string
	for i := 0; i < n; i++ {
		toks = append(toks, g.r.Pick(relTokens))
	}
	q := g.quote()
	v := strings.Join(toks, g.r.Pick([]string{" ", "  ", "\t", "\n"}))
	if g.chance(g.o.BadPos) {
		g.feat("rel-dynamic")
		v = g.action() + " " + v
	}
	g.feat("link-rel")
	return "rel=" + q + v + q
}

func (g *tgen) endTag(name string) string {
	if g.chance(g.o.Lexical / 2) {
		g.feat("odd-endtag")
		return "</" + g.casing(name) + g.r.Pick([]string{" ", "\n", "\t", " x", "/", ""}) + ">"
	}
	return "</" + name + ">"
}

var staticTexts = []string{"hello", "a b c", "1 &lt; 2", "x &amp; y", "it's", "say \"hi\"", "caf&eacute;", "&#65;", "&notit;", "&amp", "a=b", "100%", "line\nbreak", "tab\there", "x > y", "--", "->", "]]>", "é日本", "{ }", "$", "\\"}
var strayTexts = []string{"a < b", "<", "1<2", "< b", "<3", "<-", "<=", "x<", "</", "<!", "<?", "<?php x ?>", "<!x>", "</ x>", "</>", "<>", "<<a>>", "</<", "<!<", "<!->", "<![if IE]>", "<%", "<_x>", "<1a>"}

func (g *tgen) text() string {
	if !g.o.NoStrayLT && g.chance(g.o.Odd) {
		g.feat("stray-lt")
		return g.r.Pick(strayTexts)
	}
	return g.r.Pick(staticTexts)
}

func (g *tgen) comment() string {
	bodies := []string{" c ", "", "x", "-", "--", " a --! b ", "--!", "x--!y", " --!- ", " a -- b ", "<b>", "<!-- nested", "[if IE]><p>x</p><![endif]", " > ", "->", "\n"}
	if !g.o.NoStrayLT && g.chance(g.o.Odd) {
		g.feat("odd-comment")
		return g.r.Pick([]string{"<!-->", "<!--->", "<!--x--!>", "<!-- a --!> b -->", "<!--->-->", "<!---->", "<!--x->-->"})
	}
	g.feat("comment")
	b := g.r.Pick(bodies)
	if g.chance(g.o.BadPos) {
		g.feat("dyn-in-comment")
		b += g.action()
	}
	return "<!--" + b + "-->"
}

// special emits a script/style/textarea/title element with a body.
func (g *tgen) special() string {
	name := g.r.Pick([]string{"script", "style", "textarea", "title", "script", "textarea"})
	var body strings.Builder
	bodies := map[string][]string{
		"script":   {"var a = 1;", "if (a<b) { x(); }", "var s = \"</b>\";", "var s = '<b>';", "// <!-- c\n", "x = a --> b;", "var t = `x`;", "", "var re = /<\\/x/;", "a<b>c"},
		"style":    {"a { color: red }", "p > b { x: y }", "/* <b> */", "", "a::before { content: \"</b>\" }", "@media x { a{} }"},
		"textarea": {"hello", "<b>bold</b>", "a &lt; b", "&amp;", "</b>", "<!-- c -->", "", "x < y"},
		"title":    {"T", "a <b> c", "&lt;", "<!-- t -->", ""},
	}
	body.WriteString(g.r.Pick(bodies[name]))
	if g.chance(g.o.Odd) {
		g.feat("special-fake-end")
		switch name {
		case "script":
			body.WriteString(g.r.Pick([]string{"var s=\"</scriptx>\";", "</scrip", "</ script>", "<script", "<\\/script>"}))
		case "style":
			body.WriteString(g.r.Pick([]string{"</stylex>", "</ style>", "</sty"}))
		case "textarea":
			body.WriteString(g.r.Pick([]string{"</textareax>", "</ textarea>", "</text", "<textarea>"}))
		case "title":
			body.WriteString(g.r.Pick([]string{"</titlex>", "</ title>", "</tit"}))
		}
	}
	dyn := g.r.Intn(3) == 0
	if dyn {
		switch name {
		case "textarea", "title":
			g.feat("dyn-rcdata")
		case "script":
			g.feat("dyn-script")
		case "style":
			g.feat("dyn-style")
		}
		body.WriteString(g.action())
		body.WriteString(g.r.Pick([]string{"", " ", ";", "x"}))
	}
	end := "</" + name + ">"
	if g.chance(g.o.Lexical) {
		g.feat("special-odd-end")
		end = "</" + g.casing(name) + g.r.Pick([]string{"", " ", "\n", "\t", "\f", "/", " x=y", "\r"}) + ">"
	}
	dynAttrs := 0
	if g.r.Intn(5) == 0 {
		dynAttrs = 1
	}
	return g.startTag(name, dynAttrs) + body.String() + end
}

// item emits one content item at element-content level.
func (g *tgen) item() string {
	if g.depth >= g.o.MaxDepth {
		return g.text()
	}
	k := g.r.Intn(100)
	switch {
	case k < 22:
		return g.text()
	case k < 40:
		g.feat("dyn-text")
		return g.action()
	case k < 62:
		// element with content
		name := g.r.Pick(plainElems)
		if g.chance(g.o.Odd) {
			name = g.r.Pick(oddElems)
			g.feat("odd-element:" + name)
		}
		g.depth++
		var b strings.Builder
		dyn := 0
		if g.r.Intn(2) == 0 {
			dyn = 1 + g.r.Intn(2)
		}
		b.WriteString(g.startTag(name, dyn))
		for n := g.r.Intn(3); n > 0; n-- {
			b.WriteString(g.item())
		}
		g.depth--
		if name != "plaintext" && g.r.Intn(12) > 0 {
			b.WriteString(g.endTag(name))
		} else {
			g.feat("unclosed-element")
		}
		return b.String()
	case k < 70:
		dyn := 0
		if g.r.Intn(2) == 0 {
			dyn = 1
		}
		return g.startTag(g.r.Pick(voidElems), dyn)
	case k < 78:
		return g.special()
	case k < 78+g.o.Odd/3:
		return g.comment()
	case k < 80+g.o.Odd/3 && g.chance(g.o.Odd):
		g.feat("doctype")
		if g.chance(g.o.BadPos) {
			g.feat("dyn-in-doctype")
			return "<!DOCTYPE " + g.action() + ">"
		}
		return g.r.Pick([]string{"<!DOCTYPE html>", "<!doctype html>", "<!DOCTYPE html PUBLIC \"-//W3C//DTD XHTML 1.0 Strict//EN\" \"http://www.w3.org/TR/xhtml1/DTD/xhtml1-strict.dtd\">"})
	case k < 80+g.o.Odd/3+g.o.Control/2:
		return g.control()
	case k < 80+g.o.Odd/3+g.o.Control/2+g.o.Helpers/2:
		return g.helperCall()
	case k < 96+g.o.BadPos/10 && g.chance(g.o.BadPos):
		g.feat("dyn-tagname")
		return g.r.Pick([]string{"<", "<x", "</", "<h"}) + g.action() + g.r.Pick([]string{">", " a=\"b\">", ">x</p>"})
	}
	return g.text()
}

func (g *tgen) items(n int) string {
	var b strings.Builder
	for i := 0; i < n; i++ {
		b.WriteString(g.item())
	}
	return b.String()
}

func (g *tgen) control() string {
	g.depth++
	defer func() { g.depth-- }()
	switch g.r.Intn(7) {
	case 0:
		g.feat("if")
		return "{{if " + g.boolRef() + "}}" + g.items(1+g.r.Intn(2)) + "{{end}}"
	case 1:
		g.feat("if-else")
		return "{{if " + g.boolRef() + "}}" + g.items(1+g.r.Intn(2)) + "{{else}}" + g.items(g.r.Intn(2)) + "{{end}}"
	case 2:
		g.feat("if-elseif")
		return "{{if " + g.boolRef() + "}}" + g.items(1) + "{{else if " + g.boolRef() + "}}" + g.items(1) + "{{else}}" + g.items(1) + "{{end}}"
	case 3:
		g.feat("range")
		l := g.listRef()
		g.inRange++
		body := g.items(1 + g.r.Intn(2))
		g.inRange--
		if g.r.Intn(3) == 0 {
			g.feat("range-else")
			return "{{range " + l + "}}" + body + "{{else}}" + g.items(1) + "{{end}}"
		}
		return "{{range " + l + "}}" + body + "{{end}}"
	case 4:
		if g.chance(g.o.Odd) {
			g.feat("break-continue")
			l := g.listRef()
			bc := g.r.Pick([]string{"break", "continue"})
			cond := "{{if " + g.boolRef() + "}}{{" + bc + "}}{{end}}"
			g.inRange++
			a := g.action()
			g.inRange--
			switch g.r.Intn(5) {
			case 0:
				return "{{range " + l + "}}<b " + cond + "title=\"x\">y</b>{{end}}" + g.action()
			case 1:
				return "{{range " + l + "}}<a href=\"" + cond + "/x\">y</a>{{end}}" + g.action()
			case 2:
				return "{{range " + l + "}}<textarea>" + cond + "</textarea>{{end}}<i>" + g.action() + "</i>"
			case 3:
				return "{{range " + l + "}}" + cond + "<i>" + a + "</i>{{end}}"
			default:
				return "{{range " + l + "}}<i title=\"" + a + cond + "\">z</i>{{end}}" + g.action()
			}
		}
		g.feat("with")
		return "{{with " + g.strRef() + "}}" + g.r.Pick([]string{"<b>{{.}}</b>", "{{.}}", "<i title=\"{{.}}\">x</i>"}) + "{{else}}" + g.text() + "{{end}}"
	case 5:
		if g.chance(g.o.Tear) {
			g.feat("torn-tags")
			// branches open different elements; closed by a common end tag or none
			return "{{if " + g.boolRef() + "}}<b>{{else}}<i>{{end}}" + g.text() + g.r.Pick([]string{"</b>", "</i>", ""})
		}
		fallthrough
	default:
		if g.chance(g.o.Tear) {
			g.feat("torn-context")
			// one branch ends inside a tag / attribute: analysis must fail
			return "{{if " + g.boolRef() + "}}" + g.r.Pick([]string{"<a href=\"", "<a ", "<script>", "<!--", "<textarea>", "<a title='"}) + "{{end}}" + g.text()
		}
		g.feat("if")
		return "{{if " + g.boolRef() + "}}" + g.items(1) + "{{end}}"
	}
}

// helperCall defines a new helper (body generated now, may call earlier helpers only)
// or calls an existing one.
func (g *tgen) helperCall() string {
	if len(g.defs) > 0 && g.r.Intn(2) == 0 {
		g.feat("helper-reuse")
		return `{{template "` + g.r.Pick(g.defs) + `" $}}`
	}
	if len(g.defs) >= 4 || g.depth >= g.o.MaxDepth {
		return g.text()
	}
	name := fmt.Sprintf("h%d", len(g.defs))
	// Generate the body in a sub-generator sharing schema and defs.
	sub := &tgen{r: g.r, o: g.o, sc: g.sc, defs: append([]string{}, g.defs...), feats: g.feats, depth: g.depth + 1, helperAttrCalls: g.helperAttrCalls}
	var body string
	switch {
	case g.chance(g.o.Tear):
		g.feat("helper-context-changing")
		body = g.r.Pick([]string{"<a href=\"", "<b title=\"x", "<script>", "<textarea>", "<p ", "\">", "</script>", "</textarea>"})
	case g.r.Intn(5) == 0:
		g.feat("helper-recursive")
		// data-guarded linear recursion: terminates because .N is a finite chain
		body = sub.items(1) + `{{with $.N}}{{template "` + name + `" .}}{{end}}`
	default:
		body = sub.items(1 + g.r.Intn(2))
	}
	g.sc = sub.sc
	g.helperAttrCalls = sub.helperAttrCalls
	g.defsText.WriteString(sub.defsText.String())
	for _, d := range sub.defs {
		found := false
		for _, e := range g.defs {
			if e == d {
				found = true
			}
		}
		if !found {
			g.defs = append(g.defs, d)
		}
	}
	g.defsText.WriteString(`{{define "` + name + `"}}` + body + `{{end}}`)
	g.defs = append(g.defs, name)
	g.feat("helper-define")
	if g.r.Intn(4) == 0 {
		g.feat("block")
	}
	return `{{template "` + name + `" $}}`
}

// GenTemplate generates one template program.
func GenTemplate(r *core.Rng, o TmplOpts) Tmpl {
	if o.MaxDepth == 0 {
		o.MaxDepth = 3
	}
	g := &tgen{r: r, o: o, feats: map[string]bool{}}
	body := g.items(1 + r.Intn(4))
	t := Tmpl{Text: g.defsText.String() + body, Schema: g.sc, HelperAttrCalls: g.helperAttrCalls}
	for f := range g.feats {
		t.Features = append(t.Features, f)
	}
	return t
}

// SplitText inserts n template comments ({{/**/}}, which produce no output) at seeded
// positions of the static text of a template, i.e. outside every {{...}} action. The pieces
// left and right of a comment are separate text nodes for the engine but adjacent bytes of
// the output: a token (tag name, attribute name, comment delimiter, end tag, character
// reference, URL scheme) that is torn this way must still be read as a browser reads it, or
// the template must be refused.
func SplitText(r *core.Rng, text string, n int) string {
	for ; n > 0; n-- {
		// positions outside actions
		var pos []int
		depth := 0
		for i := 0; i <= len(text); i++ {
			if depth == 0 && i > 0 && i < len(text) {
				// not between the two braces of a delimiter
				if !(text[i-1] == '{' && text[i] == '{') && !(text[i-1] == '}' && text[i] == '}') {
					pos = append(pos, i)
				}
			}
			if i+1 < len(text) && text[i] == '{' && text[i+1] == '{' {
				depth = 1
				i++
				continue
			}
			if depth == 1 && i+1 < len(text) && text[i] == '}' && text[i+1] == '}' {
				depth = 0
				i++
			}
		}
		if len(pos) == 0 {
			return text
		}
		// prefer positions next to markup-significant bytes
		var hot []int
		for _, p := range pos {
			if strings.ContainsRune("<>/-!&#;:=\"'", rune(text[p-1])) || strings.ContainsRune("<>/-!&#;:=\"'", rune(text[p])) {
				hot = append(hot, p)
			}
		}
		p := pos[r.Intn(len(pos))]
		if len(hot) > 0 && r.Intn(3) != 0 {
			p = hot[r.Intn(len(hot))]
		}
		text = text[:p] + "{{/**/}}" + text[p:]
	}
	return text
}
