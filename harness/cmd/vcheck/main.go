// Command vcheck is orchestrator and worker of the runtime monitors.
//
//	vcheck run <ID> <quick|thorough>        orchestrate one check (spawns workers)
//	vcheck worker <ID> <tier> <seed> <shard> <nshards> <dir>
//	vcheck replay <ID> <file>               re-run one recorded case
package main

import (
	"bufio"
	"encoding/binary"
	"encoding/json"
	"fmt"
	"os"
	"os/exec"
	"path/filepath"
	"sort"
	"strconv"
	"strings"
	"sync"
	"syscall"
	"time"

	"verif/core"
	_ "verif/mon"
)

var root = func() string {
	if r := os.Getenv("VERIF_ROOT"); r != "" {
		return r
	}
	return "/verif"
}()

func main() {
	if len(os.Args) < 2 {
		usage()
	}
	switch os.Args[1] {
	case "run":
		if len(os.Args) != 4 {
			usage()
		}
		rc := orchestrate(os.Args[2], os.Args[3])
		removeOwnCopy()
		os.Exit(rc)
	case "worker":
		if len(os.Args) != 8 {
			usage()
		}
		worker(os.Args[2:])
	case "replay":
		if len(os.Args) != 4 {
			usage()
		}
		// scratch files of a replay live in a directory of their own, removed on exit
		sc, err := os.MkdirTemp(filepath.Join(root, ".run"), "replay-")
		if err != nil {
			os.MkdirAll(filepath.Join(root, ".run"), 0o755)
			sc, _ = os.MkdirTemp(filepath.Join(root, ".run"), "replay-")
		}
		os.Setenv("VERIF_RUNDIR", sc)
		rc := replay(os.Args[2], os.Args[3], true)
		os.RemoveAll(sc)
		removeOwnCopy()
		os.Exit(rc)
	case "list":
		fmt.Println(strings.Join(core.IDs(), " "))
	default:
		usage()
	}
}

// removeOwnCopy deletes the per-run copy of the binary made by ./check (<name>.run.<pid>).
func removeOwnCopy() {
	if self, err := os.Executable(); err == nil && strings.HasSuffix(self, fmt.Sprintf(".run.%d", os.Getpid())) {
		os.Remove(self)
	}
}

func usage() {
	fmt.Fprintln(os.Stderr, "usage: vcheck run <ID> <quick|thorough> | replay <ID> <file> | list")
	os.Exit(64)
}

func seed() uint64 {
	s := os.Getenv("VERIF_SEED")
	if s == "" {
		return 1
	}
	v, err := strconv.ParseInt(s, 10, 64)
	if err != nil {
		return core.Hash64(s)
	}
	return uint64(v)
}

// ---------------------------------------------------------------- worker

func worker(a []string) {
	id, tier := a[0], a[1]
	sd, _ := strconv.ParseUint(a[2], 10, 64)
	shard, _ := strconv.Atoi(a[3])
	nshards, _ := strconv.Atoi(a[4])
	dir := a[5]
	m := core.Lookup(id)
	if m == nil {
		fmt.Fprintf(os.Stderr, "unknown monitor %s\n", id)
		os.Exit(64)
	}
	c := core.NewCtx(id, tier, sd, shard, nshards, dir)
	m.Run(c)
	if err := c.Finish(); err != nil {
		fmt.Fprintf(os.Stderr, "finish: %v\n", err)
		os.Exit(70)
	}
}

// ---------------------------------------------------------------- replay

type replayFile struct {
	Property  string            `json:"property"`
	ID        string            `json:"id,omitempty"`
	Msg       string            `json:"msg,omitempty"`
	Case      json.RawMessage   `json:"case"`
	Preceding []json.RawMessage `json:"preceding,omitempty"`
}

// replay returns 0 if the case does not violate, 1 if it does, 2 on error.
func replay(id, file string, verbose bool) int {
	m := core.Lookup(id)
	if m == nil || m.Replay == nil {
		fmt.Fprintf(os.Stderr, "no replay for %s\n", id)
		return 2
	}
	if !filepath.IsAbs(file) {
		if _, err := os.Stat(file); err != nil {
			file = filepath.Join(root, file)
		}
	}
	b, err := os.ReadFile(file)
	if err != nil {
		fmt.Fprintln(os.Stderr, err)
		return 2
	}
	var rf replayFile
	if err := json.Unmarshal(b, &rf); err != nil {
		fmt.Fprintln(os.Stderr, err)
		return 2
	}
	c := core.NewCtx(id, "quick", seed(), 0, 1, "")
	c.Replay = verbose
	c.Strict = true
	if verbose {
		fmt.Printf("replaying %s case from %s\n", id, file)
		if rf.Msg != "" {
			fmt.Printf("  recorded: %s\n", rf.Msg)
		}
	}
	if os.Getenv("VCHECK_REPLAY_HISTORY") == "1" {
		// second stage (fresh process): the cases the worker ran before this one come first
		for _, pc := range rf.Preceding {
			pc := pc
			sc := core.NewCtx(id, "quick", seed(), 0, 1, "")
			core.Recover(func() { m.Replay(sc, pc) })
		}
	}
	if err := m.Replay(c, rf.Case); err != nil {
		fmt.Fprintf(os.Stderr, "replay error: %v\n", err)
		return 2
	}
	if c.NViolations() == 0 && len(rf.Preceding) > 0 && os.Getenv("VCHECK_REPLAY_HISTORY") != "1" {
		// the violation may be an effect of the calls the worker made before this case; they
		// are replayed in a fresh process, because this one has already made the judged call
		if verbose {
			fmt.Printf("  not reproduced by the case alone; running the %d cases that preceded it in the worker, then the case, in a fresh process\n", len(rf.Preceding))
		}
		self, _ := os.Executable()
		cmd := exec.Command(self, "replay", id, file)
		cmd.Env = append(os.Environ(), "VCHECK_REPLAY_HISTORY=1", "VCHECK_QUIET=1")
		cmd.Stdout, cmd.Stderr = os.Stdout, os.Stderr
		err := cmd.Run()
		if ee, ok := err.(*exec.ExitError); ok {
			return ee.ExitCode()
		} else if err != nil {
			return 2
		}
		if verbose {
			fmt.Println("no violation on this case")
		}
		return 0
	}
	if c.NViolations() > 0 {
		if verbose {
			fmt.Printf("VIOLATION property=%s replay=%s\n", id, file)
		} else {
			for _, v := range c.Res().Violations {
				fmt.Printf("  %s\n", v.Msg)
			}
		}
		return 1
	}
	if verbose {
		fmt.Println("no violation on this case")
	}
	return 0
}

// ---------------------------------------------------------------- known findings

type finding struct {
	Kind     string // known | fixed
	Property string
	ID       string
	Witness  string
	Text     string
}

func isHex(s string) bool {
	if len(s) < 7 {
		return false
	}
	for i := 0; i < len(s); i++ {
		if !('0' <= s[i] && s[i] <= '9' || 'a' <= s[i] && s[i] <= 'f') {
			return false
		}
	}
	return true
}

func loadFindings(prop string) []finding {
	f, err := os.Open(filepath.Join(root, "KNOWN_FINDINGS.txt"))
	if err != nil {
		return nil
	}
	defer f.Close()
	var out []finding
	sc := bufio.NewScanner(f)
	sc.Buffer(make([]byte, 1<<20), 1<<20)
	for sc.Scan() {
		line := strings.TrimSpace(sc.Text())
		if line == "" || strings.HasPrefix(line, "#") {
			continue
		}
		var fd finding
		sawCommit := false
		switch {
		case strings.HasPrefix(line, "known:"):
			fd.Kind = "known"
			line = strings.TrimSpace(line[6:])
		case strings.HasPrefix(line, "fixed:"):
			fd.Kind = "fixed"
			line = strings.TrimSpace(line[6:])
		default:
			continue
		}
		for {
			tok := line
			rest := ""
			if i := strings.IndexByte(line, ' '); i >= 0 {
				tok, rest = line[:i], strings.TrimSpace(line[i+1:])
			}
			kv := strings.SplitN(tok, "=", 2)
			if len(kv) != 2 {
				if fd.Kind == "fixed" && !sawCommit && isHex(tok) {
					// "fixed: property=<id> <commit> ..."
					sawCommit = true
					line = rest
					continue
				}
				break
			}
			switch kv[0] {
			case "property":
				fd.Property = kv[1]
			case "id":
				fd.ID = kv[1]
			case "witness":
				fd.Witness = kv[1]
			case "commit":
			default:
				goto done
			}
			line = rest
			if rest == "" {
				break
			}
		}
	done:
		fd.Text = line
		if fd.Property == prop {
			out = append(out, fd)
		}
	}
	return out
}

// ---------------------------------------------------------------- orchestrator

type evidence struct {
	PropertyID  string                 `json:"property_id"`
	Tier        string                 `json:"tier"`
	Seed        int64                  `json:"seed"`
	Level       string                 `json:"level"`
	Coverage    map[string]interface{} `json:"coverage"`
	Assumptions []string               `json:"assumptions"`
	WallS       float64                `json:"wall_s"`
	Violations  int64                  `json:"violations"`
}

func orchestrate(id, tier string) int {
	start := time.Now()
	if tier != "quick" && tier != "thorough" {
		usage()
	}
	m := core.Lookup(id)
	if m == nil {
		fmt.Fprintf(os.Stderr, "unknown monitor %s (have %v)\n", id, core.IDs())
		return 64
	}
	sd := seed()
	// every run owns its scratch directory, so that checks may run concurrently (also two
	// tiers of the same property); directories left by runs whose process is gone are removed
	dir := filepath.Join(root, ".run", fmt.Sprintf("%s.%s.%d", id, tier, os.Getpid()))
	os.RemoveAll(filepath.Join(root, ".run", id))
	if old, _ := filepath.Glob(filepath.Join(root, ".run", "*.*.*")); old != nil {
		for _, o := range old {
			parts := strings.Split(filepath.Base(o), ".")
			if _, err := os.Stat("/proc/" + parts[len(parts)-1]); err != nil {
				os.RemoveAll(o)
			}
		}
	}
	os.RemoveAll(dir)
	os.Setenv("VERIF_RUNDIR", dir)
	defer func() { os.RemoveAll(filepath.Join(dir, "histfiles")) }()
	if err := os.MkdirAll(dir, 0o755); err != nil {
		fmt.Fprintln(os.Stderr, err)
		return 70
	}
	os.MkdirAll(filepath.Join(root, "replay"), 0o755)
	os.MkdirAll(filepath.Join(root, "evidence"), 0o755)
	self, _ := os.Executable()

	exit := 0
	var violLines []string
	knownSeen, fixedChecked := 0, 0

	// 1. committed witnesses of known / fixed findings
	var knownNotes []string
	for _, fd := range loadFindings(id) {
		if fd.Witness == "" {
			continue
		}
		cmd := exec.Command(self, "replay", id, fd.Witness)
		cmd.Env = append(os.Environ(), "VCHECK_QUIET=1")
		if m.Race {
			// a race reported while replaying the witness makes the child exit with status 1
			cmd.Env = append(cmd.Env, "GORACE=exitcode=1 halt_on_error=0")
		}
		var outb strings.Builder
		cmd.Stdout, cmd.Stderr = &outb, &outb
		err := cmd.Start()
		timedOut := false
		if err == nil {
			done := make(chan error, 1)
			go func() { done <- cmd.Wait() }()
			select {
			case err = <-done:
			case <-time.After(5 * time.Minute):
				cmd.Process.Kill()
				err, timedOut = <-done, true
			}
		}
		out := []byte(outb.String())
		violates := false
		if timedOut && id == "C08" {
			// for the totality property a witness that does not return is the violation
			violates = true
			out = append(out, []byte("  witness replay did not return within 5 minutes\n")...)
		} else if ee, ok := err.(*exec.ExitError); ok && ee.ExitCode() == 1 && !timedOut {
			violates = true
		} else if err != nil {
			fmt.Printf("INCONCLUSIVE property=%s reason=witness %s could not be replayed: %v\n%s", id, fd.Witness, err, out)
			exit = 2
			continue
		}
		switch fd.Kind {
		case "known":
			if violates {
				fmt.Printf("KNOWN-FINDING: property=%s %s %s (witness %s)\n", id, fd.ID, fd.Text, fd.Witness)
				knownSeen++
			} else {
				fmt.Printf("note: known finding %s no longer reproduces on this tree (witness %s)\n", fd.ID, fd.Witness)
			}
			knownNotes = append(knownNotes, fmt.Sprintf("%s reproduces=%v", fd.ID, violates))
		case "fixed":
			fixedChecked++
			if violates {
				line := fmt.Sprintf("VIOLATION property=%s replay=%s", id, filepath.Join(root, fd.Witness))
				violLines = append(violLines, line)
				fmt.Printf("regression of fixed finding %s: %s\n%s", fd.ID, fd.Text, out)
			}
		}
	}

	// 2. exploration
	n := 16
	if m.Shards != nil {
		n = m.Shards(tier)
	}
	watchdog := 40 * time.Minute
	if tier == "thorough" {
		watchdog = 6 * time.Hour
	}
	if v, err := strconv.Atoi(os.Getenv("VERIF_WATCHDOG_S")); err == nil && v > 0 {
		watchdog = time.Duration(v) * time.Second
	}
	var wg sync.WaitGroup
	errs := make([]error, n)
	for i := 0; i < n; i++ {
		wg.Add(1)
		go func(i int) {
			defer wg.Done()
			logf, _ := os.Create(filepath.Join(dir, fmt.Sprintf("%d.log", i)))
			defer logf.Close()
			cmd := exec.Command(self, "worker", id, tier, fmt.Sprint(sd), fmt.Sprint(i), fmt.Sprint(n), dir)
			cmd.Stdout, cmd.Stderr = logf, logf
			cmd.Env = os.Environ()
			if m.Race {
				cmd.Env = append(cmd.Env, "GORACE=halt_on_error=0 log_path="+filepath.Join(dir, fmt.Sprintf("race.%d", i)))
			}
			if err := cmd.Start(); err != nil {
				errs[i] = err
				return
			}
			done := make(chan error, 1)
			go func() { done <- cmd.Wait() }()
			select {
			case errs[i] = <-done:
			case <-time.After(watchdog):
				// generous wall-clock watchdog: its firing is "inconclusive" (for C08, whose
				// subject is that every call returns, the journalled case is the witness)
				cmd.Process.Signal(syscall.SIGQUIT) // goroutine dump into the log
				select {
				case <-done:
				case <-time.After(5 * time.Second):
					cmd.Process.Kill()
					<-done
				}
				errs[i] = fmt.Errorf("watchdog: no result after %v", watchdog)
			}
		}(i)
	}
	wg.Wait()

	// 3. aggregate
	var evals, nviol int64
	counters := map[string]int64{}
	hists := map[string]map[string]int64{}
	exhaustive := map[string]int{}
	var samples []json.RawMessage
	var viols []core.Violation
	var inconcl []string
	confirmations := 0
	var dfiles []string
	capped := false
	for i := 0; i < n; i++ {
		b, err := os.ReadFile(filepath.Join(dir, fmt.Sprintf("%d.result.json", i)))
		var r core.Result
		if err == nil {
			err = json.Unmarshal(b, &r)
		}
		if err != nil || !r.Done {
			j, _ := os.ReadFile(filepath.Join(dir, fmt.Sprintf("%d.journal", i)))
			lg, _ := os.ReadFile(filepath.Join(dir, fmt.Sprintf("%d.log", i)))
			if len(lg) > 4000 {
				lg = lg[:4000]
			}
			js := strings.TrimSpace(string(j))
			if len(js) > 4000 {
				js = js[:4000] + fmt.Sprintf("... (%d bytes)", len(js))
			}
			inconcl = append(inconcl, fmt.Sprintf("worker %d died (%v); last journalled case: %s; log: %s", i, errs[i], js, string(lg)))
			if m.ID == "C08" && len(j) > 0 {
				// For the totality property a dead worker is itself the refuting event.
				cs := json.RawMessage(strings.TrimSpace(string(j)))
				if json.Valid(cs) {
					// ... if it is reproduced: the case is run again, alone, in a fresh process. The
					// in-process watchdog measures wall time, which a loaded machine stretches; a
					// case that completes when run alone is recorded as inconclusive.
					tmp := filepath.Join(dir, fmt.Sprintf("death%d.json", i))
					os.WriteFile(tmp, []byte(`{"property":"C08","case":`+string(cs)+`}`), 0o644)
					self, _ := os.Executable()
					cmd := exec.Command(self, "replay", m.ID, tmp)
					cmd.Env = append(os.Environ(), "VCHECK_QUIET=1")
					var confirmed bool
					if confirmations >= 3 {
						// enough witnesses: further deaths of this run are not confirmed one by one
						inconcl[len(inconcl)-1] += " [not re-run: three deaths of this run were confirmed already]"
						continue
					}
					confirmations++
					if err := cmd.Start(); err != nil {
						confirmed = true
					} else {
						cdone := make(chan error, 1)
						go func() { cdone <- cmd.Wait() }()
						select {
						case err := <-cdone:
							confirmed = err != nil
						case <-time.After(150 * time.Second):
							cmd.Process.Kill()
							<-cdone
							confirmed = true
						}
					}
					if confirmed {
						viols = append(viols, core.Violation{Key: fmt.Sprintf("death%d", i), Msg: "worker process died while running this case, and the case alone in a fresh process fails or does not finish either: " + firstLine(string(lg)), Case: cs})
						nviol++
						inconcl = inconcl[:len(inconcl)-1]
					} else {
						inconcl[len(inconcl)-1] += " [the case completes without violation when run alone in a fresh process: not counted as a violation]"
					}
				}
			}
			continue
		}
		evals += r.Evaluations
		nviol += r.NViolations
		for k, v := range r.Counters {
			counters[k] += v
		}
		for h, bs := range r.Hists {
			if hists[h] == nil {
				hists[h] = map[string]int64{}
			}
			for k, v := range bs {
				hists[h][k] += v
			}
		}
		for k, v := range r.Exhaustive {
			if v {
				exhaustive[k]++
			}
		}
		if len(samples) < 8 {
			for _, s := range r.Samples {
				if len(samples) < 8 {
					samples = append(samples, s)
				}
			}
		}
		viols = append(viols, r.Violations...)
		inconcl = append(inconcl, r.Inconclusive...)
		if r.DistinctFile != "" {
			dfiles = append(dfiles, r.DistinctFile)
		}
		capped = capped || r.DistinctCap
	}
	distinct := mergeDistinct(dfiles)

	// race reports
	races := 0
	if m.Race {
		races, viols = collectRaces(dir, viols)
		nviol += int64(races)
		counters["race_reports"] = int64(races)
	}

	// 4. violations -> replay files
	seen := map[string]bool{}
	for _, v := range viols {
		if seen[v.Key] {
			continue
		}
		seen[v.Key] = true
		p := filepath.Join(root, "replay", fmt.Sprintf("%s-%s.json", id, v.Key))
		b, _ := json.MarshalIndent(replayFile{Property: id, Msg: v.Msg, Case: v.Case, Preceding: v.Preceding}, "", " ")
		os.WriteFile(p, b, 0o644)
		violLines = append(violLines, fmt.Sprintf("VIOLATION property=%s replay=%s", id, p))
		fmt.Printf("violation: %s\n", v.Msg)
	}

	min := int64(2)
	if m.MinDistinct != nil {
		min = m.MinDistinct(tier)
	}
	if distinct < min && len(inconcl) == 0 {
		inconcl = append(inconcl, fmt.Sprintf("only %d distinct non-trivial cases observed, threshold %d", distinct, min))
	}

	// 5. evidence
	exh := false
	exhSpaces := []string{}
	for k, cnt := range exhaustive {
		if cnt == n {
			exhSpaces = append(exhSpaces, k)
		}
	}
	sort.Strings(exhSpaces)
	if len(exhSpaces) > 0 && len(inconcl) == 0 {
		exh = true
	}
	cov := map[string]interface{}{
		"evaluations":         evals,
		"distinct_nontrivial": distinct,
		"rule":                m.Rule,
		"samples":             samples,
		"counters":            counters,
		"histograms":          hists,
		"workers":             n,
		"known_findings":      knownNotes,
		"fixed_witnesses_rechecked": fixedChecked,
	}
	if capped {
		cov["distinct_is_lower_bound"] = true
	}
	if exh {
		cov["exhaustive_subspaces"] = exhSpaces
	}
	if len(inconcl) > 0 {
		cov["inconclusive"] = inconcl
	}
	if m.Level == "other" {
		cov["explanation"] = m.Rule
	}
	if len(samples) == 0 {
		cov["samples"] = []interface{}{"(no case completed)"}
	}
	ev := evidence{PropertyID: id, Tier: tier, Seed: int64(sd), Level: m.Level, Coverage: cov,
		Assumptions: m.Assumptions, WallS: time.Since(start).Seconds(), Violations: int64(len(violLines))}
	b, _ := json.MarshalIndent(ev, "", " ")
	os.WriteFile(filepath.Join(root, "evidence", id+".json"), b, 0o644)

	fmt.Printf("%s %s seed=%d: evaluations=%d distinct_nontrivial=%d workers=%d known_findings_seen=%d wall=%.1fs\n",
		id, tier, sd, evals, distinct, n, knownSeen, time.Since(start).Seconds())
	keys := make([]string, 0, len(counters))
	for k := range counters {
		keys = append(keys, k)
	}
	sort.Strings(keys)
	for _, k := range keys {
		fmt.Printf("  %s=%d\n", k, counters[k])
	}
	if len(violLines) > 0 {
		for _, l := range violLines {
			fmt.Println(l)
		}
		return 1
	}
	if len(inconcl) > 0 {
		for _, r := range inconcl {
			fmt.Printf("INCONCLUSIVE property=%s reason=%s\n", id, r)
		}
		return 2
	}
	return exit
}

func firstLine(s string) string {
	for _, l := range strings.Split(s, "\n") {
		if strings.TrimSpace(l) != "" {
			if len(l) > 300 {
				l = l[:300]
			}
			return l
		}
	}
	return ""
}

// mergeDistinct counts distinct hashes over sorted per-shard files.
func mergeDistinct(files []string) int64 {
	var all [][]byte
	for _, f := range files {
		b, err := os.ReadFile(f)
		if err == nil {
			all = append(all, b)
		}
		os.Remove(f)
	}
	idx := make([]int, len(all))
	var n int64
	var last uint64
	first := true
	for {
		best := -1
		var bv uint64
		for i, b := range all {
			if idx[i]+8 <= len(b) {
				v := binary.LittleEndian.Uint64(b[idx[i]:])
				if best < 0 || v < bv {
					best, bv = i, v
				}
			}
		}
		if best < 0 {
			return n
		}
		idx[best] += 8
		if first || bv != last {
			n++
			last, first = bv, false
		}
	}
}

// collectRaces parses race detector logs: one report per "WARNING: DATA RACE" block,
// de-duplicated by the stack pair with line numbers and addresses stripped.
func collectRaces(dir string, viols []core.Violation) (int, []core.Violation) {
	files, _ := filepath.Glob(filepath.Join(dir, "race.*"))
	seen := map[string]bool{}
	total := 0
	for _, f := range files {
		b, err := os.ReadFile(f)
		if err != nil {
			continue
		}
		blocks := strings.Split(string(b), "WARNING: DATA RACE")
		for _, blk := range blocks[1:] {
			total++
			// signature: the top library frames of the two conflicting accesses (the first two
			// paragraphs of the report), line numbers and addresses stripped
			var sig []string
			paras := strings.Split(blk, "\n\n")
			for pi, para := range paras {
				if pi >= 2 {
					break
				}
				n := 0
				for _, l := range strings.Split(para, "\n") {
					l = strings.TrimSpace(l)
					if (strings.HasPrefix(l, "github.com/google/safehtml") || strings.HasPrefix(l, "text/template")) && strings.HasSuffix(l, "()") && n < 2 {
						sig = append(sig, strings.TrimSuffix(l, "()"))
						n++
					}
				}
				sig = append(sig, "/")
			}
			key := strings.Join(sig, "|")
			if seen[key] {
				continue
			}
			seen[key] = true
			if len(blk) > 6000 {
				blk = blk[:6000]
			}
			cs, _ := json.Marshal(map[string]string{"race_report": "WARNING: DATA RACE" + blk, "log": f})
			viols = append(viols, core.Violation{Key: fmt.Sprintf("race-%x", core.Hash64(key)), Msg: "data race reported by the Go race detector: " + firstLine(strings.Join(sig, " <- ")), Case: cs})
		}
	}
	return total, viols
}
