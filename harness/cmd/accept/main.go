// Command accept executes generated templates against the linked safehtml version and prints,
// per template, whether it was accepted and a hash of the output. Used to compare which
// templates two versions of the library accept (diagnostic, not a registered check).
package main

import (
	"bufio"
	"encoding/json"
	"fmt"
	"os"
	"strconv"

	"verif/core"
	"verif/gen"
	"verif/tx"
)

func main() {
	mode := os.Args[1]
	n, _ := strconv.Atoi(os.Args[2])
	r := core.NewRng(12345)
	w := bufio.NewWriter(os.Stdout)
	defer w.Flush()
	for i := 0; i < n; i++ {
		o := gen.TmplOpts{Lexical: 20, Control: 40, Helpers: 30, Tear: 10, Odd: 5, BadPos: 0, MaxDepth: 3, URLHeavy: i%2 == 0, NoStrayLT: true}
		t := gen.GenTemplate(r, o)
		_, is := gen.GenData(r, func(i int) string { return "v" })
		if mode == "dump" {
			b, _ := json.Marshal(map[string]interface{}{"i": i, "t": t.Text})
			fmt.Fprintln(w, string(b))
			continue
		}
		res := tx.Run(t.Text, is.Build())
		st := "ok"
		if res.Panic != nil {
			st = "panic"
		} else if res.ParseErr != nil {
			st = "parse"
		} else if res.ExecErr != nil {
			st = "err:" + tx.ErrClass(res.ExecErr)
		}
		fmt.Fprintf(w, "%d\t%s\t%x\n", i, st, core.Hash64(res.Out))
	}
}
