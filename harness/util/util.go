// Package util has helpers shared by monitors.
package util

import (
	"bytes"
	"encoding/json"
	"fmt"
	"reflect"
	"strconv"
)

// Q quotes arbitrary bytes for JSON case files (ASCII-safe, reversible).
func Q(s string) string { return strconv.QuoteToASCII(s) }

// Unq reverses Q; strings that are not quoted are returned unchanged.
func Unq(s string) string {
	if u, err := strconv.Unquote(s); err == nil {
		return u
	}
	return s
}

// Qs quotes a slice.
func Qs(ss []string) []string {
	out := make([]string, len(ss))
	for i, s := range ss {
		out[i] = Q(s)
	}
	return out
}

// Unqs unquotes a slice.
func Unqs(ss []string) []string {
	out := make([]string, len(ss))
	for i, s := range ss {
		out[i] = Unq(s)
	}
	return out
}

// CallConst calls fn (any func) with args; a string argument whose parameter type is a
// different (e.g. unexported constant-only) string type is converted to it, which is how
// the monitors drive compile-time-constant parameters with run-time values.
func CallConst(fn interface{}, args ...interface{}) []reflect.Value {
	fv := reflect.ValueOf(fn)
	ft := fv.Type()
	in := make([]reflect.Value, len(args))
	for i, a := range args {
		var pt reflect.Type
		if ft.IsVariadic() && i >= ft.NumIn()-1 {
			pt = ft.In(ft.NumIn() - 1).Elem()
		} else {
			pt = ft.In(i)
		}
		v := reflect.ValueOf(a)
		if !v.IsValid() {
			v = reflect.Zero(pt)
		} else if v.Type() != pt && v.Kind() == reflect.String && pt.Kind() == reflect.String {
			v = v.Convert(pt)
		}
		in[i] = v
	}
	return fv.Call(in)
}

// JSON marshals without HTML escaping (readable evidence / replay files).
func JSON(v interface{}) string {
	var b bytes.Buffer
	e := json.NewEncoder(&b)
	e.SetEscapeHTML(false)
	if err := e.Encode(v); err != nil {
		return fmt.Sprintf("%q", fmt.Sprint(v))
	}
	return string(bytes.TrimSpace(b.Bytes()))
}

// FlagValue is a flag.Value holding a dynamic string.
type FlagValue string

func (f FlagValue) String() string     { return string(f) }
func (f FlagValue) Set(string) error   { return nil }
