// Package hist is the history engine shared by the monitors of C05-C09: operation
// sequences over template handles, an executor that runs them against the real engine
// under observation, and the replay-on-a-fresh-set reference.
package hist

import (
	"bytes"
	"errors"
	"fmt"
	"os"
	"path/filepath"
	"strings"
	"sync"

	"github.com/google/safehtml"
	"github.com/google/safehtml/template"
	"github.com/google/safehtml/template/uncheckedconversions"

	"verif/core"
	"verif/gen"
)

// Op is one API call. H is the handle variable it is applied to, Dst the variable that
// receives a returned handle (-1 if none).
type Op struct {
	Kind string `json:"k"` // new tnew parse parsefiles parseglob parsefs clone lookup templates defined name exec exect exechtml execthtml csp
	H    int    `json:"h"`
	Dst  int    `json:"d"`
	Name string `json:"n,omitempty"`
	Text string `json:"t,omitempty"` // template text (parse)
	Data int    `json:"data,omitempty"`
}

type selfPtr *selfPtr

// IsExec reports whether the op executes a template.
func (o Op) IsExec() bool {
	return o.Kind == "exec" || o.Kind == "exect" || o.Kind == "exechtml" || o.Kind == "execthtml" || o.Kind == "execbyname" || o.Kind == "execcyc"
}

// IsParse reports whether the op (re)defines templates.
func (o Op) IsParse() bool {
	return o.Kind == "parse" || o.Kind == "parsefiles" || o.Kind == "parseglob" || o.Kind == "parsefs"
}

// History is a replayable case.
type History struct {
	Ops  []Op           `json:"ops"`
	Data []gen.DataSpec `json:"data"`
	NVar int            `json:"nvar"`
	// MustFail names members whose body contains, by construction, something that cannot be
	// contextualized (the generator's failing-body list); executing them must always fail.
	MustFail []string `json:"must_fail,omitempty"`
}

// Result of one op.
type Result struct {
	Ran         bool   // false if the handle variable was nil
	Err         string // error text ("" if none)
	IsErr       bool
	AnalysisErr bool // error produced by contextual analysis / lookup (not by running the body)
	ErrCode     int
	Out         string
	Ticks       int
	Panic       string
	HTMLNonZero bool   // *ToHTML returned a non-zero HTML together with an error
	Info        string // return value of read-only ops
}

// Exec is a running instance of a history.
type Exec struct {
	H     *History
	Vars  []*template.Template
	ticks *int
	data  []map[string]interface{}
}

var (
	fileMu    sync.Mutex
	fileCache = map[string][2]string{}
	fileSeq   int
)

// fileFor returns a directory and a file in it holding the template text of a file-based
// parse op. Files are cached per (name, text) for the life of the process; the orchestrator
// removes the directory tree.
func (e *Exec) fileFor(op Op) (string, string, error) {
	name := op.Name
	if name == "" || strings.ContainsAny(name, "/\x00") {
		name = "file.tmpl"
	}
	key := name + "\x00" + op.Text
	fileMu.Lock()
	defer fileMu.Unlock()
	if v, ok := fileCache[key]; ok {
		if b, err := os.ReadFile(v[1]); err == nil && string(b) == op.Text {
			return v[0], v[1], nil
		}
	}
	fileSeq++
	d := filepath.Join(core.RunDir(), "histfiles", fmt.Sprint(os.Getpid()), fmt.Sprint(fileSeq))
	if err := os.MkdirAll(d, 0o755); err != nil {
		return "", "", err
	}
	p := filepath.Join(d, name)
	if err := os.WriteFile(p, []byte(op.Text), 0o644); err != nil {
		return "", "", err
	}
	fileCache[key] = [2]string{d, p}
	return d, p, nil
}

// Close removes the scratch files of the executor.
func (e *Exec) Close() {}

// NewExec prepares an executor.
func NewExec(h *History) *Exec {
	e := &Exec{H: h, Vars: make([]*template.Template, h.NVar), ticks: new(int)}
	for _, d := range h.Data {
		m := d.Build()
		m["DOTS"] = ".."
		if n, ok := m["N"].(map[string]interface{}); ok {
			n["DOTS"] = ".."
		}
		e.data = append(e.data, m)
	}
	return e
}

func (e *Exec) funcs() template.FuncMap {
	return template.FuncMap{"tick": func() string { *e.ticks++; return "" }}
}

type countWriter struct {
	b bytes.Buffer
}

func (w *countWriter) Write(p []byte) (int, error) { return w.b.Write(p) }

// Do runs op i.
func (e *Exec) Do(op Op) (res Result) {
	var h *template.Template
	if op.Kind != "new" {
		if op.H < 0 || op.H >= len(e.Vars) || e.Vars[op.H] == nil {
			return Result{}
		}
		h = e.Vars[op.H]
	}
	res.Ran = true
	setErr := func(err error) {
		if err == nil {
			return
		}
		res.IsErr = true
		res.Err = err.Error()
		var te *template.Error
		if errors.As(err, &te) {
			res.AnalysisErr = true
			res.ErrCode = int(te.ErrorCode)
		} else if strings.HasPrefix(res.Err, "html/template:") || strings.Contains(res.Err, "is an incomplete or empty template") {
			res.AnalysisErr = true
		}
	}
	var data interface{}
	if op.IsExec() && op.Data >= 0 && op.Data < len(e.data) {
		data = e.data[op.Data]
	}
	before := *e.ticks
	pn := core.Recover(func() {
		switch op.Kind {
		case "new":
			t := template.New(op.Name).Funcs(e.funcs())
			e.set(op.Dst, t)
		case "tnew":
			e.set(op.Dst, h.New(op.Name))
		case "parse":
			t, err := h.ParseFromTrustedTemplate(uncheckedconversions.TrustedTemplateFromStringKnownToSatisfyTypeContract(op.Text))
			setErr(err)
			if err == nil {
				e.set(op.Dst, t)
			}
		case "parsefiles", "parseglob", "parsefs":
			d, p, ferr := e.fileFor(op)
			if ferr != nil {
				panic("harness: cannot write template file: " + ferr.Error())
			}
			var t *template.Template
			var err error
			switch op.Kind {
			case "parsefiles":
				t, err = h.ParseFilesFromTrustedSources(template.TrustedSourceFromFlag(flagValue(p)))
			case "parseglob":
				t, err = h.ParseGlobFromTrustedSource(template.TrustedSourceFromFlag(flagValue(filepath.Join(d, "*"))))
			default:
				t, err = h.ParseFS(template.TrustedFSFromTrustedSource(template.TrustedSourceFromFlag(flagValue(d))), filepath.Base(p))
			}
			setErr(err)
			if err == nil {
				e.set(op.Dst, t)
			}
		case "parsefszero":
			// the zero TrustedFS (clients can make it: the struct type is exported)
			_, err := h.ParseFS(template.TrustedFS{}, "*")
			setErr(err)
			if _, err2 := (template.TrustedFS{}).Sub(template.TrustedSourceFromFlag(flagValue("sub"))); err == nil {
				setErr(err2)
			}
		case "clone":
			t, err := h.Clone()
			setErr(err)
			if err == nil {
				// the clone needs its own tick function bound to this executor (same counter)
				e.set(op.Dst, t)
			}
		case "lookup":
			e.set(op.Dst, h.Lookup(op.Name))
		case "templates":
			var names []string
			for _, t := range h.Templates() {
				names = append(names, t.Name())
			}
			sortStrings(names)
			res.Info = strings.Join(names, ",")
		case "defined":
			res.Info = h.DefinedTemplates()
		case "name":
			res.Info = h.Name()
		case "csp":
			h.CSPCompatible()
		case "exec":
			var w countWriter
			setErr(h.Execute(&w, data))
			res.Out = w.b.String()
		case "execcyc":
			// a value that points to itself (type P *P)
			var p selfPtr
			p = selfPtr(&p)
			var w countWriter
			setErr(h.Execute(&w, p))
			res.Out = w.b.String()
		case "execbyname":
			// reference only: the handle's own template, reached through its name
			var w countWriter
			setErr(h.ExecuteTemplate(&w, h.Name(), data))
			res.Out = w.b.String()
		case "exect":
			var w countWriter
			setErr(h.ExecuteTemplate(&w, op.Name, data))
			res.Out = w.b.String()
		case "exechtml":
			out, err := h.ExecuteToHTML(data)
			setErr(err)
			res.Out = out.String()
			res.HTMLNonZero = err != nil && out != (safehtml.HTML{})
		case "execthtml":
			out, err := h.ExecuteTemplateToHTML(op.Name, data)
			setErr(err)
			res.Out = out.String()
			res.HTMLNonZero = err != nil && out != (safehtml.HTML{})
		default:
			panic("unknown op " + op.Kind)
		}
	})
	if pn != nil {
		res.Panic = fmt.Sprint(pn)
	}
	res.Ticks = *e.ticks - before
	return res
}

func (e *Exec) set(dst int, t *template.Template) {
	if dst >= 0 && dst < len(e.Vars) {
		e.Vars[dst] = t
	}
}

type flagValue string

func (f flagValue) String() string   { return string(f) }
func (f flagValue) Set(string) error { return nil }

// Run executes the whole history.
func Run(h *History) []Result {
	e := NewExec(h)
	defer e.Close()
	out := make([]Result, len(h.Ops))
	for i, op := range h.Ops {
		out[i] = e.Do(op)
	}
	return out
}

// Reference computes what exec op k returns on fresh sets: every non-executing op before k
// that succeeded in the real run is replayed on new objects, then op k is performed. The
// result therefore depends only on definitions, name and data.
func Reference(h *History, real []Result, k int, skip ...[]bool) Result {
	e := NewExec(h)
	defer e.Close()
	for i := 0; i < k; i++ {
		op := h.Ops[i]
		if op.IsExec() || !real[i].Ran || real[i].IsErr || real[i].Panic != "" {
			continue
		}
		if len(skip) > 0 && i < len(skip[0]) && skip[0][i] {
			// a New(name) made after the first execution of the set: it must not have any
			// effect on the set, so the definitions do not include it
			continue
		}
		e.Do(op)
	}
	return e.Do(h.Ops[k])
}

// PadText defines a template that nothing calls.
const PadText = `New("zz_unrelated_pad").Parse("pad")`

// ReferencePadded is Reference with one more definition made through the handle of op k just
// before it: New("zz_unrelated_pad").Parse("pad"), a template that nothing mentions. A Parse may change only what it
// defines, so the result of op k must not depend on it.
func ReferencePadded(h *History, real []Result, k int, skip ...[]bool) Result {
	var sk []bool
	if len(skip) > 0 {
		sk = skip[0]
	}
	e := rebuildPlain(h, real, k, sk)
	if v := h.Ops[k].H; v >= 0 && v < len(e.Vars) && e.Vars[v] != nil {
		// through a new associated template, so that the handle's own template is not given
		// the (empty) top-level body of the text
		core.Recover(func() {
			e.Vars[v].New("zz_unrelated_pad").ParseFromTrustedTemplate(uncheckedconversions.TrustedTemplateFromStringKnownToSatisfyTypeContract("pad"))
		})
	}
	return e.Do(h.Ops[k])
}

// ReferenceByName is Reference with op k (an Execute on a handle) replaced by
// ExecuteTemplate on the same handle with the handle's own name.
func ReferenceByName(h *History, real []Result, k int, skip ...[]bool) Result {
	var sk []bool
	if len(skip) > 0 {
		sk = skip[0]
	}
	e := rebuildPlain(h, real, k, sk)
	op := h.Ops[k]
	op.Kind = "execbyname"
	return e.Do(op)
}

func rebuildPlain(h *History, real []Result, upto int, skip []bool) *Exec {
	e := NewExec(h)
	for i := 0; i < upto; i++ {
		op := h.Ops[i]
		if op.IsExec() || !real[i].Ran || real[i].IsErr || real[i].Panic != "" {
			continue
		}
		if i < len(skip) && skip[i] {
			continue
		}
		e.Do(op)
	}
	return e
}

// ReferenceRebuild is Reference with every Clone replaced by what the documentation says a
// clone is: a duplicate of the set as it is at that moment. The handle the clone op returns
// is obtained by replaying, on new objects, the definitions made before the clone; the
// clone operation of the engine is not used at all. Whatever the engine's Clone forgets to
// copy, or copies although the set no longer has it, makes the real run differ from this.
func ReferenceRebuild(h *History, real []Result, k int, skip ...[]bool) Result {
	var sk []bool
	if len(skip) > 0 {
		sk = skip[0]
	}
	ticks := new(int)
	e := rebuild(h, real, k, sk, ticks)
	return e.Do(h.Ops[k])
}

func rebuild(h *History, real []Result, upto int, skip []bool, ticks *int) *Exec {
	e := NewExec(h)
	e.ticks = ticks
	for i := 0; i < upto; i++ {
		op := h.Ops[i]
		if op.IsExec() || !real[i].Ran || real[i].IsErr || real[i].Panic != "" {
			continue
		}
		if i < len(skip) && skip[i] {
			continue
		}
		if op.Kind == "clone" {
			sub := rebuild(h, real, i, skip, ticks)
			if op.H >= 0 && op.H < len(sub.Vars) {
				e.set(op.Dst, sub.Vars[op.H])
			}
			continue
		}
		e.Do(op)
	}
	return e
}

func sortStrings(a []string) {
	for i := 1; i < len(a); i++ {
		for j := i; j > 0 && a[j] < a[j-1]; j-- {
			a[j], a[j-1] = a[j-1], a[j]
		}
	}
}

// ---------------------------------------------------------------- model

// Model tracks, per handle variable, the abstract set it belongs to, the name of its template
// and whether that set has been executed ("frozen").
type Model struct {
	setOf  []int
	nameOf []string
	orphan []bool // handle returned by New(name) after the first execution of its set
	frozen map[int]bool
	next   int
}

// Orphan reports whether variable v holds a template made by New after its set was executed:
// it is not a member of the set, and what executing it gives is not specified.
func (m *Model) Orphan(v int) bool { return v >= 0 && v < len(m.orphan) && m.orphan[v] }

// NewModel creates a model for n variables.
func NewModel(n int) *Model {
	m := &Model{setOf: make([]int, n), nameOf: make([]string, n), orphan: make([]bool, n), frozen: map[int]bool{}}
	for i := range m.setOf {
		m.setOf[i] = -1
	}
	return m
}

// Frozen reports whether the set of variable v was executed before.
func (m *Model) Frozen(v int) bool { return v >= 0 && v < len(m.setOf) && m.setOf[v] >= 0 && m.frozen[m.setOf[v]] }

// disassociate models what New(name) does to an existing template of that name: the old
// template is reset and becomes the only member of a new, never executed set, so every handle
// variable that holds it moves there.
func (m *Model) disassociate(set int, name string, except int) {
	moved := -1
	for v := range m.setOf {
		if v != except && m.setOf[v] == set && m.nameOf[v] == name {
			if moved < 0 {
				m.next++
				moved = m.next
			}
			m.setOf[v] = moved
		}
	}
}

// Apply updates the model with an op that was actually run (res.Ran).
func (m *Model) Apply(op Op, res Result) {
	if !res.Ran {
		return
	}
	switch op.Kind {
	case "new":
		m.next++
		m.setOf[op.Dst] = m.next
		m.nameOf[op.Dst] = op.Name
	case "tnew":
		if m.Frozen(op.H) || m.Orphan(op.H) {
			// the set cannot be changed any more: nothing is replaced, the new template is
			// not a member, parsing into it fails like parsing into any template of the set
			if op.Dst >= 0 {
				m.setOf[op.Dst] = m.setOf[op.H]
				m.nameOf[op.Dst] = op.Name
				m.orphan[op.Dst] = true
			}
			return
		}
		m.disassociate(m.setOf[op.H], op.Name, -1)
		if op.Dst >= 0 {
			m.setOf[op.Dst] = m.setOf[op.H]
			m.nameOf[op.Dst] = op.Name
			m.orphan[op.Dst] = false
		}
	case "lookup":
		if op.Dst >= 0 {
			m.setOf[op.Dst] = m.setOf[op.H]
			m.nameOf[op.Dst] = op.Name
			m.orphan[op.Dst] = false
		}
	case "parse":
		if !res.IsErr && op.Dst >= 0 {
			m.setOf[op.Dst] = m.setOf[op.H]
			m.nameOf[op.Dst] = m.nameOf[op.H]
		}
	case "parsefiles", "parseglob", "parsefs":
		// the file's base name becomes a template created with New (unless it is the
		// receiver's own name) before its text is parsed; nothing happens on a frozen set
		name := op.Name
		if name == "" || strings.ContainsAny(name, "/\x00") {
			name = "file.tmpl"
		}
		if !m.Frozen(op.H) && name != m.nameOf[op.H] {
			m.disassociate(m.setOf[op.H], name, -1)
		}
		if !res.IsErr && op.Dst >= 0 {
			m.setOf[op.Dst] = m.setOf[op.H]
			m.nameOf[op.Dst] = m.nameOf[op.H]
		}
	case "clone":
		if !res.IsErr && op.Dst >= 0 {
			m.next++
			m.setOf[op.Dst] = m.next
			m.nameOf[op.Dst] = m.nameOf[op.H]
			m.orphan[op.Dst] = false
		}
	case "exec", "exect", "exechtml", "execthtml":
		m.frozen[m.setOf[op.H]] = true
	}
}

// ---------------------------------------------------------------- generation

// GenOpts tunes history generation.
type GenOpts struct {
	Set         gen.SetOpts
	MaxOps      int
	Clones      bool
	ParseAfter  bool // attempts to parse after execution
	WildOps     bool // C08: redefinitions through New, lookups of odd names, exec on fresh handles
	ExtraDefs   bool // parse additional definitions into clones
	NewOps      bool // C07: New(name) of existing and fresh names, before and after execution, and parsing into the result
}

var plainData = []string{"a&b", "x<y>z", "say \"hi\"", "it's", "50%", "a b", "é", "/p?q=1&r=2", "javascript:alert(1)", "w", "", "ltr", "_self", "id1"}

// GenData makes a few data values.
func GenData(r *core.Rng, n int) []gen.DataSpec {
	var out []gen.DataSpec
	for i := 0; i < n; i++ {
		d, _ := gen.GenData(r, func(int) string { return plainData[r.Intn(len(plainData))] })
		out = append(out, d)
	}
	return out
}

// Gen generates one history over a generated set.
func Gen(r *core.Rng, o GenOpts) (*History, gen.Set) {
	set := gen.GenSet(r, o.Set)
	h := &History{Data: GenData(r, 3), NVar: 8, MustFail: set.MustFail}
	add := func(op Op) { h.Ops = append(h.Ops, op) }
	add(Op{Kind: "new", Dst: 0, Name: "root", H: -1})
	if o.WildOps && r.Intn(6) == 0 {
		// replace the root handle in its own set before anything is parsed: v0 becomes an orphan
		add(Op{Kind: "tnew", H: 0, Dst: 7, Name: "root"})
	}
	for _, t := range set.Texts {
		add(Op{Kind: "parse", H: 0, Dst: 0, Text: t})
	}
	nextVar := 1
	for _, m := range set.Modes {
		if m == "empty-callee" {
			if r.Bool() {
				// ... and that replaces a template which had one
				add(Op{Kind: "parse", H: 0, Dst: 0, Text: `{{define "emptyT"}}old body {{$.S0}}{{end}}`})
			}
			// a template that exists but has no body: New without Parse
			add(Op{Kind: "tnew", H: 0, Dst: nextVar, Name: "emptyT"})
			nextVar++
			break
		}
	}
	cspMember := false
	if o.Clones && !o.WildOps && r.Intn(8) == 0 {
		// a member that a CSP-compatible set refuses; the setting is made before anything runs
		cspMember = true
		if r.Bool() {
			add(Op{Kind: "csp", H: 0, Dst: -1})
		}
		add(Op{Kind: "parse", H: 0, Dst: 0, Text: r.Pick([]string{`{{define "cspm"}}{{tick}}<a onclick="f()">x{{$.S0}}</a>{{end}}`, `{{define "cspm"}}{{tick}}<a href="javascript:void(0)">{{$.S0}}</a>{{end}}`})})
	}
	if o.ExtraDefs && r.Intn(3) == 0 {
		fn := r.Pick([]string{"fromfile", "m0", "h0"})
		add(Op{Kind: []string{"parsefiles", "parseglob", "parsefs"}[r.Intn(3)], H: 0, Dst: 0, Name: fn, Text: r.Pick([]string{"<i>file {{$.S0}}</i>", "<p title=\"{{$.S1}}\">f</p>", "static file"})})
	}
	if o.WildOps && r.Intn(3) == 0 {
		// a body for the root handle itself (not a define), often one whose analysis fails
		body := gen.FailBody(r)
		if r.Intn(3) == 0 {
			body = "<p>{{$.S0}}</p>"
		}
		add(Op{Kind: "parse", H: 0, Dst: 0, Text: body})
		for n := 1 + r.Intn(3); n > 0; n-- {
			add(Op{Kind: []string{"exec", "exechtml"}[r.Intn(2)], H: 0, Dst: -1, Data: r.Intn(len(h.Data))})
		}
	}
	names := append([]string{}, set.Members...)
	if r.Intn(2) == 0 {
		// helpers are executed directly as well (many end in a non-text context)
		names = append(names, set.Helpers...)
	}
	if cspMember {
		names = append(names, "cspm", "cspm")
	}
	live := []int{0} // variables holding handles of the main set
	cloneVars := []int{}
	maxOps := o.MaxOps
	if maxOps == 0 {
		maxOps = 12
	}
	pre := -1
	if o.NewOps && o.Clones {
		pre = r.Intn(6)
	}
	if pre == 1 && nextVar+2 < h.NVar {
		// New(name) over a template whose body is empty, then a clone, then the same Parse with an
		// empty main body into the new handle of the original and of the clone: both refuse it
		// (K110: the clone had accepted it)
		add(Op{Kind: "parse", H: 0, Dst: 0, Text: r.Pick([]string{`{{define "eh"}}{{end}}`, `{{define "eh"}} {{/* c */}} {{end}}`, `{{define "eh"}}<b>old {{$.S0}}</b>{{end}}`})})
		add(Op{Kind: "tnew", H: 0, Dst: nextVar, Name: "eh"})
		add(Op{Kind: "clone", H: 0, Dst: nextVar + 1})
		add(Op{Kind: "lookup", H: nextVar + 1, Dst: nextVar + 2, Name: "eh"})
		later := r.Pick([]string{`{{define "g2"}}<i>{{template "eh" .}}</i>{{end}}`, ` {{define "g2"}}{{tick}}<i title="{{template "eh" .}}">x</i>{{end}} `, `{{define "g2"}}<i>{{template "eh" .}}</i>{{end}}{{tick}}body {{$.S0}}`})
		add(Op{Kind: "parse", H: nextVar + 2, Dst: nextVar + 2, Text: later})
		add(Op{Kind: "parse", H: nextVar, Dst: nextVar, Text: later})
		add(Op{Kind: "exect", H: nextVar + 1, Dst: -1, Name: "g2", Data: r.Intn(len(h.Data))})
		add(Op{Kind: "exect", H: 0, Dst: -1, Name: "g2", Data: r.Intn(len(h.Data))})
		nextVar += 3
	}
	if pre == 0 && nextVar+1 < h.NVar {
		// the first execution of the set is one that fails before any analysis: Execute on a
		// handle that New declared without a body. It is an execution all the same: the handle
		// cannot be cloned or parsed into afterwards (seeded C07-m9, C07-m10)
		bl := nextVar
		nextVar++
		add(Op{Kind: "tnew", H: 0, Dst: bl, Name: r.Pick([]string{"fresh", "bodyless"})})
		add(Op{Kind: []string{"exec", "exechtml"}[r.Intn(2)], H: bl, Dst: -1, Data: r.Intn(len(h.Data))})
		add(Op{Kind: "clone", H: bl, Dst: nextVar})
		nextVar++
		if r.Bool() {
			add(Op{Kind: "parse", H: bl, Dst: bl, Text: "{{tick}}<b>late body {{$.S0}}</b>"})
		}
	}
	nOps := 4 + r.Intn(maxOps)
	execKinds := []string{"exect", "exect", "exect", "execthtml", "exec", "exechtml"}
	for i := 0; i < nOps; i++ {
		v := live[r.Intn(len(live))]
		if len(cloneVars) > 0 && r.Intn(3) == 0 {
			v = cloneVars[r.Intn(len(cloneVars))]
		}
		name := names[r.Intn(len(names))]
		k := r.Intn(100)
		switch {
		case k < 55:
			kind := execKinds[r.Intn(len(execKinds))]
			if kind == "exec" || kind == "exechtml" {
				// Execute needs a handle of the member: look it up first
				if nextVar < h.NVar {
					add(Op{Kind: "lookup", H: v, Dst: nextVar, Name: name})
					add(Op{Kind: kind, H: nextVar, Dst: -1, Data: r.Intn(len(h.Data))})
					nextVar++
				} else {
					add(Op{Kind: "exect", H: v, Dst: -1, Name: name, Data: r.Intn(len(h.Data))})
				}
			} else {
				add(Op{Kind: kind, H: v, Dst: -1, Name: name, Data: r.Intn(len(h.Data))})
			}
			if r.Intn(4) == 0 { // immediate repetition
				add(h.Ops[len(h.Ops)-1])
			}
		case k < 63:
			add(Op{Kind: []string{"templates", "defined", "name"}[r.Intn(3)], H: v, Dst: -1})
		case k < 70 && o.Clones && nextVar < h.NVar:
			add(Op{Kind: "clone", H: v, Dst: nextVar})
			cloneVars = append(cloneVars, nextVar)
			nextVar++
			if o.ExtraDefs && r.Bool() {
				// redefine a member in the clone (or in the original) before anything else
				which := cloneVars[len(cloneVars)-1]
				if r.Intn(3) == 0 {
					which = v
				}
				m := set.Members[r.Intn(len(set.Members))]
				body := r.Pick([]string{"<i>redefined {{$.S0}}</i>", "<p title=\"{{$.S1}}\">r</p>", "plain", "<a href=\"{{$.S2}}\">l</a>", "<script>"})
				add(Op{Kind: "parse", H: which, Dst: which, Text: `{{define "` + m + `"}}{{tick}}` + body + `{{end}}`})
			}
		case k < 78 && o.ParseAfter:
			m := names[r.Intn(len(names))]
			body := r.Pick([]string{"late {{$.S0}}", "<b>late</b>", "<a href=\"{{$.S0}}\">late</a>"})
			txt := `{{define "` + m + `"}}` + body + `{{end}}`
			if r.Intn(3) == 0 {
				txt = `{{define "brandnew"}}` + body + `{{end}}`
			}
			switch r.Intn(5) {
			case 0, 1:
				add(Op{Kind: "parse", H: v, Dst: v, Text: txt})
			default:
				// file-based: the base name of the file becomes the template name
				fname := m
				if r.Intn(3) == 0 {
					fname = r.Pick([]string{"brandnew", "root", "x.tmpl"})
				}
				add(Op{Kind: []string{"parsefiles", "parseglob", "parsefs"}[r.Intn(3)], H: v, Dst: v, Name: fname, Text: body})
			}
		case k < 84:
			if nextVar < h.NVar {
				add(Op{Kind: "lookup", H: v, Dst: nextVar, Name: r.Pick(append([]string{"nope", "root", ""}, names...))})
				live = append(live, nextVar)
				nextVar++
			}
		case k < 90 && o.NewOps && r.Intn(3) == 0 && nextVar+1 < h.NVar:
			// a handle that is replaced by New(name): it leaves the set, and what is parsed
			// into it later must not reach the set
			nn := names[r.Intn(len(names))]
			stale, fresh := nextVar, nextVar+1
			nextVar += 2
			add(Op{Kind: "lookup", H: v, Dst: stale, Name: nn})
			add(Op{Kind: "tnew", H: v, Dst: fresh, Name: nn})
			add(Op{Kind: "parse", H: fresh, Dst: fresh, Text: "{{tick}}" + r.Pick([]string{"<i>new {{$.S0}}</i>", "<p title=\"{{$.S1}}\">n</p>", "<b>{{$.S0}}</b>"})})
			if r.Bool() {
				add(Op{Kind: "exect", H: v, Dst: -1, Name: nn, Data: r.Intn(len(h.Data))})
			}
			add(Op{Kind: "parse", H: stale, Dst: stale, Text: r.Pick([]string{"{{tick}}stale {{$.S0}}", "stale {{$.S0}}", "<b>{{$.S0}}</b>", `x{{define "` + names[r.Intn(len(names))] + `"}}hijacked {{$.S0}}{{end}}`, `{{tick}}x{{define "` + names[r.Intn(len(names))] + `"}}{{tick}}hijacked {{$.S0}}{{end}}`})})
			if r.Bool() {
				// the replaced handle is a template of its own now: Execute on it runs what was parsed into it
				add(Op{Kind: []string{"exec", "exechtml"}[r.Intn(2)], H: stale, Dst: -1, Data: r.Intn(len(h.Data))})
			}
			add(Op{Kind: "exect", H: v, Dst: -1, Name: nn, Data: r.Intn(len(h.Data))})
			add(Op{Kind: "exect", H: v, Dst: -1, Name: names[r.Intn(len(names))], Data: r.Intn(len(h.Data))})
		case k < 90 && o.NewOps:
			if nextVar < h.NVar {
				nn := r.Pick(append([]string{"fresh"}, names...))
				add(Op{Kind: "tnew", H: v, Dst: nextVar, Name: nn})
				if r.Intn(3) > 0 {
					// give it a body (a redefinition if the set has not been executed, refused otherwise)
					body := r.Pick([]string{"<i>new {{$.S0}}</i>", "<p title=\"{{$.S1}}\">n</p>", "plain", "{{$.S0}}"})
					add(Op{Kind: "parse", H: nextVar, Dst: nextVar, Text: "{{tick}}" + body})
				}
				if r.Bool() {
					add(Op{Kind: "exect", H: v, Dst: -1, Name: nn, Data: r.Intn(len(h.Data))})
				}
				nextVar++
			}
		case k < 90 && o.WildOps:
			if nextVar < h.NVar {
				add(Op{Kind: "tnew", H: v, Dst: nextVar, Name: r.Pick(append([]string{"fresh", "root", "empty"}, names...))})
				live = append(live, nextVar)
				nextVar++
			}
		case k < 93 && o.WildOps:
			if r.Intn(4) == 0 {
				add(Op{Kind: "parsefszero", H: v, Dst: -1})
			} else if r.Bool() {
				add(Op{Kind: "csp", H: v, Dst: -1})
			} else {
				// execute the handle itself, twice
				kind := []string{"exec", "exechtml"}[r.Intn(2)]
				add(Op{Kind: kind, H: v, Dst: -1, Data: r.Intn(len(h.Data))})
				add(Op{Kind: kind, H: v, Dst: -1, Data: r.Intn(len(h.Data))})
			}
		default:
			add(Op{Kind: "exect", H: v, Dst: -1, Name: r.Pick([]string{"nope", "root", name}), Data: r.Intn(len(h.Data))})
		}
	}
	// live may contain nil lookups; harmless (ops on nil variables do not run)
	return h, set
}
