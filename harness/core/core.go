// Package core is the shared runtime of the monitors: seeded PRNG, per-shard
// context (counters, histograms, samples, distinct-case sets, violations),
// result files and the three-valued verdict.
package core

import (
	"crypto/sha256"
	"encoding/binary"
	"encoding/hex"
	"encoding/json"
	"fmt"
	"hash/fnv"
	"os"
	"path/filepath"
	"sort"
	"sync"
)

// ---------------------------------------------------------------- PRNG

// Rng is a splitmix64 stream. All case lists are pure functions of it.
type Rng struct{ s uint64 }

// NewRng derives a stream from a seed and a list of labels.
func NewRng(seed uint64, labels ...string) *Rng {
	h := fnv.New64a()
	var b [8]byte
	binary.LittleEndian.PutUint64(b[:], seed)
	h.Write(b[:])
	for _, l := range labels {
		h.Write([]byte{0})
		h.Write([]byte(l))
	}
	r := &Rng{s: h.Sum64()}
	r.U64()
	return r
}

// U64 returns the next 64 random bits.
func (r *Rng) U64() uint64 {
	r.s += 0x9E3779B97F4A7C15
	z := r.s
	z = (z ^ (z >> 30)) * 0xBF58476D1CE4E5B9
	z = (z ^ (z >> 27)) * 0x94D049BB133111EB
	return z ^ (z >> 31)
}

// State exposes the stream state (for replay records).
func (r *Rng) State() uint64 { return r.s }

// Intn returns a value in [0,n).
func (r *Rng) Intn(n int) int {
	if n <= 1 {
		return 0
	}
	return int(r.U64() % uint64(n))
}

// Bool returns true with probability 1/2.
func (r *Rng) Bool() bool { return r.U64()&1 == 1 }

// Chance returns true with probability num/den.
func (r *Rng) Chance(num, den int) bool { return r.Intn(den) < num }

// Pick returns a random element of ss.
func (r *Rng) Pick(ss []string) string { return ss[r.Intn(len(ss))] }

// Fork derives an independent stream.
func (r *Rng) Fork(label string) *Rng {
	return NewRng(r.U64(), label)
}

// ---------------------------------------------------------------- context

// Violation is one refutation of the property with its replayable case.
type Violation struct {
	Key  string          `json:"key"` // stable hash of the case
	Msg  string          `json:"msg"`
	Case json.RawMessage `json:"case"`
	// Preceding holds the cases the worker ran just before this one (oldest first). A
	// violation that is an effect of earlier calls (state kept by the library between
	// calls) does not reproduce from Case alone; the replay command then runs these first.
	Preceding []json.RawMessage `json:"preceding,omitempty"`
}

// Result is what one worker (shard) reports.
type Result struct {
	Property     string                    `json:"property"`
	Shard        int                       `json:"shard"`
	Evaluations  int64                     `json:"evaluations"`
	Counters     map[string]int64          `json:"counters"`
	Hists        map[string]map[string]int64 `json:"hists"`
	Samples      []json.RawMessage         `json:"samples"`
	Violations   []Violation               `json:"violations"`
	NViolations  int64                     `json:"n_violations"`
	Inconclusive []string                  `json:"inconclusive"`
	Exhaustive   map[string]bool           `json:"exhaustive"`
	DistinctFile string                    `json:"distinct_file"`
	DistinctN    int64                     `json:"distinct_n"`
	DistinctCap  bool                      `json:"distinct_capped"`
	Done         bool                      `json:"done"`
}

// Ctx is the per-shard context handed to a monitor.
type Ctx struct {
	Property string
	Tier     string // quick | thorough
	Seed     uint64
	Shard    int
	NShards  int
	Dir      string // run directory of this check (.run/<ID>)
	Replay   bool   // replaying a single case: no journal, verbose
	Strict   bool   // replaying a committed witness: known-finding exclusions are not applied

	mu       sync.Mutex
	res      Result
	distinct map[uint64]struct{}
	journal  *os.File
	recent   []string             // the last journalled cases, oldest first
	notes    [12]func() interface{} // the last noted cases (cheap form of the journal)
	nnotes   int
	maxViol  int
	maxSamp  int
}

const distinctCap = 3_000_000

// NewCtx creates a context.
func NewCtx(prop, tier string, seed uint64, shard, nshards int, dir string) *Ctx {
	c := &Ctx{Property: prop, Tier: tier, Seed: seed, Shard: shard, NShards: nshards, Dir: dir,
		distinct: map[uint64]struct{}{}, maxViol: 20, maxSamp: 6}
	c.res = Result{Property: prop, Shard: shard, Counters: map[string]int64{}, Hists: map[string]map[string]int64{}, Exhaustive: map[string]bool{}}
	return c
}

// Thorough reports whether the thorough tier is running.
func (c *Ctx) Thorough() bool { return c.Tier == "thorough" }

// N picks the budget for the tier.
func (c *Ctx) N(quick, thorough int) int {
	if c.Thorough() {
		return thorough
	}
	return quick
}

// Rng returns the stream of this shard for a label.
func (c *Ctx) Rng(label string) *Rng {
	return NewRng(c.Seed, c.Property, label, fmt.Sprint(c.Shard))
}

// SharedRng returns a stream that is the same in every shard (for case lists that
// are partitioned by index).
func (c *Ctx) SharedRng(label string) *Rng {
	return NewRng(c.Seed, c.Property, label)
}

// Mine reports whether index i of a partitioned enumeration belongs to this shard.
func (c *Ctx) Mine(i int) bool { return c.NShards <= 1 || i%c.NShards == c.Shard }

// Eval counts n executed cases.
func (c *Ctx) Eval(n int) {
	c.mu.Lock()
	c.res.Evaluations += int64(n)
	c.mu.Unlock()
}

// Count adds to a named counter.
func (c *Ctx) Count(name string, n int) {
	c.mu.Lock()
	c.res.Counters[name] += int64(n)
	c.mu.Unlock()
}

// Hist adds one observation to a histogram bucket.
func (c *Ctx) Hist(name, bucket string) {
	c.mu.Lock()
	h := c.res.Hists[name]
	if h == nil {
		h = map[string]int64{}
		c.res.Hists[name] = h
	}
	if len(h) < 400 || h[bucket] > 0 {
		h[bucket]++
	} else {
		h["(other)"]++
	}
	c.mu.Unlock()
}

// Hash64 hashes strings to 64 bits.
func Hash64(parts ...string) uint64 {
	h := fnv.New64a()
	for _, p := range parts {
		h.Write([]byte(p))
		h.Write([]byte{0xff})
	}
	return h.Sum64()
}

// Distinct records one distinct non-trivial case (by hash). Beyond the cap further
// cases are not counted, which makes the reported number a lower bound.
func (c *Ctx) Distinct(h uint64) {
	c.mu.Lock()
	if len(c.distinct) < distinctCap {
		c.distinct[h] = struct{}{}
	} else {
		c.res.DistinctCap = true
	}
	c.mu.Unlock()
}

// DistinctS is Distinct over strings.
func (c *Ctx) DistinctS(parts ...string) { c.Distinct(Hash64(parts...)) }

// Sample keeps a few real cases for the evidence file.
func (c *Ctx) Sample(v interface{}) {
	c.mu.Lock()
	defer c.mu.Unlock()
	if len(c.res.Samples) >= c.maxSamp {
		return
	}
	b, err := json.Marshal(v)
	if err == nil && len(b) > 64<<10 {
		// e.g. a history whose template text has megabytes: the evidence file stays readable
		b, err = json.Marshal(map[string]interface{}{"sample_omitted": fmt.Sprintf("a case of %d bytes (too large for the evidence file)", len(b))})
	}
	if err == nil {
		c.res.Samples = append(c.res.Samples, b)
	}
}

// WantSample reports whether more samples are wanted (to avoid building them).
func (c *Ctx) WantSample() bool {
	c.mu.Lock()
	defer c.mu.Unlock()
	return len(c.res.Samples) < c.maxSamp
}

// SetExhaustive marks a finite sub-space as completely enumerated by this shard's
// partition of it.
func (c *Ctx) SetExhaustive(space string) {
	c.mu.Lock()
	c.res.Exhaustive[space] = true
	c.mu.Unlock()
}

// Inconclusive records a reason why this run cannot give a verdict.
func (c *Ctx) Inconclusive(reason string) {
	c.mu.Lock()
	c.res.Inconclusive = append(c.res.Inconclusive, reason)
	c.mu.Unlock()
}

// Violation records a refutation; cs is the JSON-serialisable case that replays it.
func (c *Ctx) Violation(cs interface{}, format string, args ...interface{}) {
	msg := fmt.Sprintf(format, args...)
	if len(msg) > 3000 {
		msg = msg[:3000] + fmt.Sprintf("... (%d bytes; the full case is in the replay file)", len(msg))
	}
	b, err := json.Marshal(cs)
	if err != nil {
		b, _ = json.Marshal(fmt.Sprintf("%+v", cs))
	}
	sum := sha256.Sum256(b)
	c.mu.Lock()
	defer c.mu.Unlock()
	c.res.NViolations++
	if len(c.res.Violations) < c.maxViol {
		v := Violation{Key: hex.EncodeToString(sum[:8]), Msg: msg, Case: b}
		recent := c.recent
		if len(recent) == 0 && c.nnotes > 0 {
			for i := c.nnotes - len(c.notes); i < c.nnotes; i++ {
				if i >= 0 {
					if nb, err := json.Marshal(c.notes[i%len(c.notes)]()); err == nil {
						recent = append(recent, string(nb))
					}
				}
			}
		}
		for i, l := range recent {
			if i == len(recent)-1 && l == string(b) {
				break // the entry of the case itself
			}
			if json.Valid([]byte(l)) {
				v.Preceding = append(v.Preceding, json.RawMessage(l))
			}
		}
		c.res.Violations = append(c.res.Violations, v)
	}
	if c.Replay {
		fmt.Printf("  violation: %s\n", msg)
	}
}

// NViolations returns the number recorded so far.
func (c *Ctx) NViolations() int64 {
	c.mu.Lock()
	defer c.mu.Unlock()
	return c.res.NViolations
}

// Note remembers the case that is about to run (as a function producing it, so that nothing
// is marshalled unless a violation is recorded): the cases noted before a violating case are
// stored with it as "preceding".
func (c *Ctx) Note(mk func() interface{}) {
	if c.Replay {
		return
	}
	c.mu.Lock()
	c.notes[c.nnotes%len(c.notes)] = mk
	c.nnotes++
	c.mu.Unlock()
}

// Journal appends a line describing the case that is about to run, so that a
// worker death leaves its witness behind.
func (c *Ctx) Journal(line string) {
	if c.Replay || c.Dir == "" {
		return
	}
	c.mu.Lock()
	defer c.mu.Unlock()
	if len(line) < 1<<16 {
		if len(c.recent) >= 12 {
			c.recent = append(c.recent[:0], c.recent[1:]...)
		}
		c.recent = append(c.recent, line)
	}
	if c.journal == nil {
		f, err := os.OpenFile(filepath.Join(c.Dir, fmt.Sprintf("%d.journal", c.Shard)), os.O_CREATE|os.O_WRONLY|os.O_TRUNC, 0o644)
		if err != nil {
			return
		}
		c.journal = f
	}
	// Keep only the last entry: rewrite in place.
	c.journal.Truncate(0)
	c.journal.WriteAt([]byte(line+"\n"), 0)
}

// Finish writes the result file of the shard.
func (c *Ctx) Finish() error {
	c.mu.Lock()
	defer c.mu.Unlock()
	c.res.Done = true
	c.res.DistinctN = int64(len(c.distinct))
	if c.Dir != "" && !c.Replay {
		hs := make([]uint64, 0, len(c.distinct))
		for h := range c.distinct {
			hs = append(hs, h)
		}
		sort.Slice(hs, func(i, j int) bool { return hs[i] < hs[j] })
		buf := make([]byte, 8*len(hs))
		for i, h := range hs {
			binary.LittleEndian.PutUint64(buf[8*i:], h)
		}
		c.res.DistinctFile = filepath.Join(c.Dir, fmt.Sprintf("%d.distinct", c.Shard))
		if err := os.WriteFile(c.res.DistinctFile, buf, 0o644); err != nil {
			return err
		}
		b, _ := json.Marshal(&c.res)
		return os.WriteFile(filepath.Join(c.Dir, fmt.Sprintf("%d.result.json", c.Shard)), b, 0o644)
	}
	return nil
}

// Res gives access to the result (replay mode).
func (c *Ctx) Res() *Result { return &c.res }

// Monitor is one property check.
type Monitor struct {
	ID string
	// Level and technique for evidence.
	Level string
	Rule  string // how cases are generated and what makes one distinct/non-trivial
	// Assumptions / trusted base.
	Assumptions []string
	// Run explores this shard's part of the workload.
	Run func(c *Ctx)
	// Replay runs exactly one recorded case and records violations in c.
	Replay func(c *Ctx, raw json.RawMessage) error
	// MinDistinct is the minimum number of distinct non-trivial cases a complete run
	// must have observed (per tier); below it the run is inconclusive.
	MinDistinct func(tier string) int64
	// Race builds the worker with the race detector.
	Race bool
	// Shards is the number of worker processes (0 = default 16).
	Shards func(tier string) int
}

var registry = map[string]*Monitor{}

// Register adds a monitor.
func Register(m *Monitor) { registry[m.ID] = m }

// Lookup finds a monitor.
func Lookup(id string) *Monitor { return registry[id] }

// IDs lists registered monitors.
func IDs() []string {
	var ids []string
	for id := range registry {
		ids = append(ids, id)
	}
	sort.Strings(ids)
	return ids
}

// Recover runs f and reports a recovered panic value (nil if none).
func Recover(f func()) (p interface{}) {
	defer func() {
		if r := recover(); r != nil {
			p = r
		}
	}()
	f()
	return nil
}

// RunDir is the scratch directory of the current run (set by the orchestrator for its workers
// and by the replay command); it is private to the run, so concurrent checks cannot disturb
// each other's files.
func RunDir() string {
	if d := os.Getenv("VERIF_RUNDIR"); d != "" {
		return d
	}
	root := os.Getenv("VERIF_ROOT")
	if root == "" {
		root = "/verif"
	}
	return filepath.Join(root, ".run", fmt.Sprintf("adhoc.%d", os.Getpid()))
}
