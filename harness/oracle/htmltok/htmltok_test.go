package htmltok

import (
	"strings"
	"testing"
)

func sig(res Result) string {
	var parts []string
	for _, t := range res.Tokens {
		switch t.Type {
		case Text:
			parts = append(parts, "T["+t.Mode+"]"+t.Data)
		case StartTag:
			s := "<" + t.Name
			for _, a := range t.Attrs {
				s += " " + a.Name
				if a.HasValue {
					s += "=" + a.Value
				}
			}
			if t.SelfClosing {
				s += " /"
			}
			parts = append(parts, s+">")
		case EndTag:
			parts = append(parts, "</"+t.Name+">")
		case Comment:
			parts = append(parts, "C["+t.Data+"]")
		case Doctype:
			parts = append(parts, "D["+t.Data+"]")
		}
	}
	return strings.Join(parts, "|") + "@" + res.FinalState
}

func TestTokenizerTable(t *testing.T) {
	for _, c := range []struct{ in, want string }{
		{`a<b>c</b>`, `T[data]a|<b>|T[data]c|</b>@data`},
		{`<A HREF="x" title='y' z=w q>`, `<a href=x title=y z=w q>@data`},
		{"<p\fid=x\n/>", `<p id=x />@data`},
		{`<br/>`, `<br />@data`},
		{`<a b="1" b="2">`, `<a b=1>@data`},
		{`<!--x-->y`, `C[x]|T[data]y@data`},
		{`<!-->y`, `C[]|T[data]y@data`},
		{`<!--->y`, `C[]|T[data]y@data`},
		{`<!--x--!>y`, `C[x]|T[data]y@data`},
		{`<!--x--y-->z`, `C[x--y]|T[data]z@data`},
		{`<!-- a <!-- b -->c`, `C[ a <!-- b ]|T[data]c@data`},
		{`<!--x`, `C[x]@comment`},
		{`<!x>y`, `C[x]|T[data]y@data`},
		{`<?x?>y`, `C[?x?]|T[data]y@data`},
		{`</<b>x`, `C[<b]|T[data]x@data`},
		{`</>x`, `T[data]x@data`},
		{`a<1`, `T[data]a<1@data`},
		{`a<`, `T[data]a<@tag open`},
		{`a</`, `T[data]a</@end tag open`},
		{`<!DOCTYPE html><p>`, `D[ html]|<p>@data`},
		{`<title>a<b>c</title>d`, `<title>|T[rcdata]a<b>c|</title>|T[data]d@data`},
		{`<textarea></textareax></TEXTAREA >x`, `<textarea>|T[rcdata]</textareax>|</textarea>|T[data]x@data`},
		{`<style>a</b></style/>x`, `<style>|T[rawtext]a</b>|</style>|T[data]x@data`},
		{`<script>var a="</scriptx>";</script>x`, `<script>|T[script]var a="</scriptx>";|</script>|T[data]x@data`},
		{`<script><!--<script></script>x</script>y`, `<script>|T[script]<!--<script></script>x|</script>|T[data]y@data`},
		{`<script><!--a</script>x`, `<script>|T[script]<!--a|</script>|T[data]x@data`},
		{`<script><!--<script>-->a</script>x`, `<script>|T[script]<!--<script>-->a|</script>|T[data]x@data`},
		{`<xmp><b></xmp>`, `<xmp>|T[rawtext]<b>|</xmp>@data`},
		{`<plaintext></plaintext><b>`, `<plaintext>|T[plaintext]</plaintext><b>@plaintext`},
		{`<a href=x>`, `<a href=x>@data`},
		{`<a href=x/>`, `<a href=x/>@data`},
		{`<a href="x`, `@attribute value (double-quoted)`},
		{`<a href`, `@attribute name`},
		{`<a `, `@before attribute name`},
		{`<a`, `@tag name`},
		{`<a =b>`, `<a =b>@data`},
		{`<a "b>`, `<a "b>@data`},
		{`<a b='c'd>`, `<a b=c d>@data`},
		{"x\r\ny\rz", "T[data]x\ny\nz@data"},
		{`<p title="a&amp;b">`, `<p title=a&amp;b>@data`},
		{`</p x=y>`, `</p>@data`},
		{`<svg><title>a<b></title></svg>`, `<svg>|<title>|T[rcdata]a<b>|</title>|</svg>@data`},
	} {
		got := sig(Tokenize(c.in, Options{}))
		if got != c.want {
			t.Errorf("Tokenize(%q)\n got  %s\n want %s", c.in, got, c.want)
		}
	}
}

func TestForeign(t *testing.T) {
	got := sig(Tokenize(`<svg><title>a<b></title></svg>`, Options{Foreign: true}))
	want := `<svg>|<title>|T[data]a|<b>|</title>|</svg>@data`
	if got != want {
		t.Errorf("foreign: got %s want %s", got, want)
	}
	got = sig(Tokenize(`<svg><![CDATA[<b>]]></svg>`, Options{Foreign: true}))
	want = `<svg>|T[cdata]<b>|</svg>@data`
	if got != want {
		t.Errorf("cdata: got %s want %s", got, want)
	}
}

func TestDecode(t *testing.T) {
	for _, c := range []struct {
		in, attr, text string
	}{
		{"a&amp;b", "a&b", "a&b"},
		{"&lt=x", "&lt=x", "<=x"},
		{"&ltx", "&ltx", "<x"},
		{"&lt;x", "<x", "<x"},
		{"&lt", "<", "<"},
		{"&colon;", ":", ":"},
		{"&colon", "&colon", "&colon"},
		{"&#58;&#x3a;&#X3A&#58", "::::", "::::"},
		{"&Tab;&NewLine;", "\t\n", "\t\n"},
		{"&#0;&#xD800;&#x110000;&#128;", "���€", "���€"},
		{"&#;&#x;&", "&#;&#x;&", "&#;&#x;&"},
		{"&notit;&notin;", "&notit;∉", "¬it;∉"},
		{"&unknown;", "&unknown;", "&unknown;"},
	} {
		if g := DecodeAttrValue(c.in); g != c.attr {
			t.Errorf("DecodeAttrValue(%q)=%q want %q", c.in, g, c.attr)
		}
		if g := DecodeText(c.in); g != c.text {
			t.Errorf("DecodeText(%q)=%q want %q", c.in, g, c.text)
		}
	}
}
