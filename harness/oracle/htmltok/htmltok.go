// Package htmltok is an independent implementation of the WHATWG HTML
// tokenizer (HTML Living Standard, section 13.2.5) with the minimal
// tree-construction feedback that switches the tokenizer into RCDATA, RAWTEXT,
// script data and PLAINTEXT states. It shares no code with safehtml.
//
// It is an oracle: it favours being literal about the specification over speed.
package htmltok

import (
	"strings"
)

// TokenType is the kind of a token.
type TokenType int

// Token kinds.
const (
	Text TokenType = iota
	StartTag
	EndTag
	Comment
	Doctype
)

func (t TokenType) String() string {
	return [...]string{"Text", "StartTag", "EndTag", "Comment", "Doctype"}[t]
}

// Attr is one attribute of a start or end tag.
type Attr struct {
	Name     string // lower-cased as the tokenizer does
	Value    string // raw value: character references NOT decoded
	Quote    byte   // '"', '\'' or 0 (unquoted or no value)
	HasValue bool
	ValStart int // byte offsets of the raw value in the preprocessed input
	ValEnd   int
}

// Token is one emitted token. Adjacent character tokens produced in the same
// tokenizer content mode are merged into one Text token.
type Token struct {
	Type        TokenType
	Name        string // tag name (lower-cased)
	Attrs       []Attr
	SelfClosing bool
	DupAttrs    []Attr // attributes dropped because an earlier one has the same name
	Data        string // text, comment or doctype data
	Mode        string // for Text: data, rcdata, rawtext, script, plaintext, cdata
	Start, End  int    // byte span in the preprocessed input
}

// Options controls the tree-construction approximation.
type Options struct {
	// Foreign enables tracking of SVG/MathML content: inside it the
	// RCDATA/RAWTEXT/script switches do not happen and <![CDATA[ is a CDATA
	// section.
	Foreign bool
	// Scripting is the scripting flag (noscript is RAWTEXT when set).
	Scripting bool
	// ContextElement, when non-empty, starts the tokenizer as the fragment
	// parsing algorithm would for that context element (e.g. "textarea").
	ContextElement string
}

// Result is the outcome of tokenizing a whole input.
type Result struct {
	Tokens []Token
	// FinalState is the tokenizer state at end of input, before EOF handling
	// (e.g. "data", "attribute value (double-quoted)", "comment").
	FinalState string
	// Input is the preprocessed input the spans refer to.
	Input string
}

type state int

const (
	sData state = iota
	sRCDATA
	sRAWTEXT
	sScriptData
	sPLAINTEXT
	sTagOpen
	sEndTagOpen
	sTagName
	sRCDATALessThan
	sRCDATAEndTagOpen
	sRCDATAEndTagName
	sRAWTEXTLessThan
	sRAWTEXTEndTagOpen
	sRAWTEXTEndTagName
	sScriptLessThan
	sScriptEndTagOpen
	sScriptEndTagName
	sScriptEscapeStart
	sScriptEscapeStartDash
	sScriptEscaped
	sScriptEscapedDash
	sScriptEscapedDashDash
	sScriptEscapedLessThan
	sScriptEscapedEndTagOpen
	sScriptEscapedEndTagName
	sScriptDoubleEscapeStart
	sScriptDoubleEscaped
	sScriptDoubleEscapedDash
	sScriptDoubleEscapedDashDash
	sScriptDoubleEscapedLessThan
	sScriptDoubleEscapeEnd
	sBeforeAttrName
	sAttrName
	sAfterAttrName
	sBeforeAttrValue
	sAttrValueDQ
	sAttrValueSQ
	sAttrValueUQ
	sAfterAttrValueQ
	sSelfClosingStartTag
	sBogusComment
	sMarkupDeclOpen
	sCommentStart
	sCommentStartDash
	sComment
	sCommentLessThan
	sCommentLessThanBang
	sCommentLessThanBangDash
	sCommentLessThanBangDashDash
	sCommentEndDash
	sCommentEnd
	sCommentEndBang
	sDoctype
	sCDATASection
	sCDATASectionBracket
	sCDATASectionEnd
)

var stateNames = map[state]string{
	sData: "data", sRCDATA: "rcdata", sRAWTEXT: "rawtext", sScriptData: "script data", sPLAINTEXT: "plaintext",
	sTagOpen: "tag open", sEndTagOpen: "end tag open", sTagName: "tag name",
	sRCDATALessThan: "rcdata less-than", sRCDATAEndTagOpen: "rcdata end tag open", sRCDATAEndTagName: "rcdata end tag name",
	sRAWTEXTLessThan: "rawtext less-than", sRAWTEXTEndTagOpen: "rawtext end tag open", sRAWTEXTEndTagName: "rawtext end tag name",
	sScriptLessThan: "script less-than", sScriptEndTagOpen: "script end tag open", sScriptEndTagName: "script end tag name",
	sScriptEscapeStart: "script escape start", sScriptEscapeStartDash: "script escape start dash",
	sScriptEscaped: "script escaped", sScriptEscapedDash: "script escaped dash", sScriptEscapedDashDash: "script escaped dash dash",
	sScriptEscapedLessThan: "script escaped less-than", sScriptEscapedEndTagOpen: "script escaped end tag open", sScriptEscapedEndTagName: "script escaped end tag name",
	sScriptDoubleEscapeStart: "script double escape start", sScriptDoubleEscaped: "script double escaped",
	sScriptDoubleEscapedDash: "script double escaped dash", sScriptDoubleEscapedDashDash: "script double escaped dash dash",
	sScriptDoubleEscapedLessThan: "script double escaped less-than", sScriptDoubleEscapeEnd: "script double escape end",
	sBeforeAttrName: "before attribute name", sAttrName: "attribute name", sAfterAttrName: "after attribute name",
	sBeforeAttrValue: "before attribute value", sAttrValueDQ: "attribute value (double-quoted)", sAttrValueSQ: "attribute value (single-quoted)",
	sAttrValueUQ: "attribute value (unquoted)", sAfterAttrValueQ: "after attribute value (quoted)", sSelfClosingStartTag: "self-closing start tag",
	sBogusComment: "bogus comment", sMarkupDeclOpen: "markup declaration open",
	sCommentStart: "comment start", sCommentStartDash: "comment start dash", sComment: "comment",
	sCommentLessThan: "comment less-than", sCommentLessThanBang: "comment less-than bang", sCommentLessThanBangDash: "comment less-than bang dash",
	sCommentLessThanBangDashDash: "comment less-than bang dash dash", sCommentEndDash: "comment end dash", sCommentEnd: "comment end", sCommentEndBang: "comment end bang",
	sDoctype: "doctype", sCDATASection: "cdata section", sCDATASectionBracket: "cdata section bracket", sCDATASectionEnd: "cdata section end",
}

// Preprocess normalises newlines as the input stream preprocessing does.
func Preprocess(in string) string {
	if !strings.Contains(in, "\r") {
		return in
	}
	in = strings.ReplaceAll(in, "\r\n", "\n")
	return strings.ReplaceAll(in, "\r", "\n")
}

type tokenizer struct {
	in   string
	pos  int
	st   state
	opt  Options
	toks []Token

	// pending character data
	textStart int
	textBuf   strings.Builder
	textMode  string
	textEnd   int

	// current tag token
	cur       Token
	curAttr   *Attr
	attrNameB strings.Builder
	attrValB  strings.Builder
	tagStart  int
	isEnd     bool

	// comment
	commentB     strings.Builder
	commentStart int

	// temporary buffer
	tmp strings.Builder

	lastStartTag string
	finalState   string

	// tree-construction approximation
	foreignStack []string // open elements inside foreign content; empty = HTML content
}

func isWS(c byte) bool { return c == '\t' || c == '\n' || c == '\f' || c == ' ' }
func isAlpha(c byte) bool {
	return 'a' <= c && c <= 'z' || 'A' <= c && c <= 'Z'
}
func lower(c byte) byte {
	if 'A' <= c && c <= 'Z' {
		return c + 32
	}
	return c
}

const replacement = "�"

func (z *tokenizer) emitChars(s string, start int, mode string) {
	if s == "" {
		return
	}
	if z.textBuf.Len() > 0 && z.textMode != mode {
		z.flushText()
	}
	if z.textBuf.Len() == 0 {
		z.textStart = start
		z.textMode = mode
	}
	z.textBuf.WriteString(s)
	z.textEnd = start + len(s)
}

func (z *tokenizer) flushText() {
	if z.textBuf.Len() == 0 {
		return
	}
	z.toks = append(z.toks, Token{Type: Text, Data: z.textBuf.String(), Mode: z.textMode, Start: z.textStart, End: z.textEnd})
	z.textBuf.Reset()
}

func (z *tokenizer) newTag(end bool, start int) {
	z.cur = Token{Type: StartTag, Start: start}
	if end {
		z.cur.Type = EndTag
	}
	z.isEnd = end
	z.curAttr = nil
	z.tagStart = start
}

func (z *tokenizer) startAttr() {
	z.finishAttr()
	z.cur.Attrs = append(z.cur.Attrs, Attr{})
	z.curAttr = &z.cur.Attrs[len(z.cur.Attrs)-1]
	z.attrNameB.Reset()
	z.attrValB.Reset()
}

func (z *tokenizer) finishAttr() {
	if z.curAttr == nil {
		return
	}
	z.curAttr.Name = z.attrNameB.String()
	z.curAttr.Value = z.attrValB.String()
	z.curAttr = nil
}

// dedupeAttrs drops attributes whose name duplicates an earlier one, as the
// tokenizer does (duplicate-attribute parse error).
func dedupeAttrs(as []Attr) (kept, dropped []Attr) {
	seen := map[string]bool{}
	for _, a := range as {
		if seen[a.Name] {
			dropped = append(dropped, a)
			continue
		}
		seen[a.Name] = true
		kept = append(kept, a)
	}
	return
}

func (z *tokenizer) emitTag(end int) {
	z.finishAttr()
	z.flushText()
	z.cur.End = end
	z.cur.Attrs, z.cur.DupAttrs = dedupeAttrs(z.cur.Attrs)
	tok := z.cur
	z.toks = append(z.toks, tok)
	z.st = sData
	if tok.Type == StartTag {
		z.lastStartTag = tok.Name
		z.treeStartTag(tok)
	} else {
		z.treeEndTag(tok)
	}
}

func (z *tokenizer) emitComment(end int) {
	z.flushText()
	z.toks = append(z.toks, Token{Type: Comment, Data: z.commentB.String(), Start: z.commentStart, End: end})
	z.commentB.Reset()
}

func (z *tokenizer) appropriateEndTag() bool {
	return z.isEnd && z.cur.Name == z.lastStartTag && z.lastStartTag != ""
}

var breakoutTags = map[string]bool{
	"b": true, "big": true, "blockquote": true, "body": true, "br": true, "center": true, "code": true, "dd": true, "div": true, "dl": true, "dt": true,
	"em": true, "embed": true, "h1": true, "h2": true, "h3": true, "h4": true, "h5": true, "h6": true, "head": true, "hr": true, "i": true, "img": true,
	"li": true, "listing": true, "menu": true, "meta": true, "nobr": true, "ol": true, "p": true, "pre": true, "ruby": true, "s": true, "small": true,
	"span": true, "strong": true, "strike": true, "sub": true, "sup": true, "table": true, "tt": true, "u": true, "ul": true, "var": true,
}

var voidElements = map[string]bool{"area": true, "base": true, "br": true, "col": true, "embed": true, "hr": true, "img": true, "input": true,
	"link": true, "meta": true, "param": true, "source": true, "track": true, "wbr": true}

func (z *tokenizer) inForeign() bool {
	if !z.opt.Foreign || len(z.foreignStack) == 0 {
		return false
	}
	// HTML integration points: content is processed as HTML.
	top := z.foreignStack[len(z.foreignStack)-1]
	if strings.HasPrefix(top, "html:") {
		return false
	}
	switch top {
	case "foreignobject", "desc", "title", "annotation-xml-html", "mi", "mo", "mn", "ms", "mtext":
		return false
	}
	return true
}

func (z *tokenizer) treeStartTag(t Token) {
	if z.opt.Foreign {
		if z.inForeign() {
			if breakoutTags[t.Name] || t.Name == "font" && hasAnyAttr(t, "color", "face", "size") {
				z.foreignStack = nil // pop back to HTML content
			} else {
				if !t.SelfClosing {
					z.foreignStack = append(z.foreignStack, foreignName(t))
				}
				return // no tokenizer state switch in foreign content
			}
		} else if len(z.foreignStack) > 0 {
			// HTML content at an integration point.
			if t.Name == "svg" || t.Name == "math" {
				if !t.SelfClosing {
					z.foreignStack = append(z.foreignStack, t.Name)
				}
				return
			}
			// Track HTML elements so that end tags pop correctly.
			if !t.SelfClosing && !voidElements[t.Name] {
				z.foreignStack = append(z.foreignStack, "html:"+t.Name)
			}
		} else if t.Name == "svg" || t.Name == "math" {
			if !t.SelfClosing {
				z.foreignStack = append(z.foreignStack, t.Name)
			}
			return
		}
	}
	switch t.Name {
	case "title", "textarea":
		z.st = sRCDATA
	case "style", "xmp", "iframe", "noembed", "noframes":
		z.st = sRAWTEXT
	case "noscript":
		if z.opt.Scripting {
			z.st = sRAWTEXT
		}
	case "script":
		z.st = sScriptData
	case "plaintext":
		z.st = sPLAINTEXT
	}
}

func foreignName(t Token) string {
	if t.Name == "annotation-xml" {
		for _, a := range t.Attrs {
			if a.Name == "encoding" {
				v := strings.ToLower(a.Value)
				if v == "text/html" || v == "application/xhtml+xml" {
					return "annotation-xml-html"
				}
			}
		}
	}
	return t.Name
}

func hasAnyAttr(t Token, names ...string) bool {
	for _, a := range t.Attrs {
		for _, n := range names {
			if a.Name == n {
				return true
			}
		}
	}
	return false
}

func (z *tokenizer) treeEndTag(t Token) {
	if !z.opt.Foreign || len(z.foreignStack) == 0 {
		return
	}
	// Pop up to and including the nearest matching element.
	for i := len(z.foreignStack) - 1; i >= 0; i-- {
		n := strings.TrimPrefix(z.foreignStack[i], "html:")
		if n == "annotation-xml-html" {
			n = "annotation-xml"
		}
		if n == t.Name {
			z.foreignStack = z.foreignStack[:i]
			return
		}
	}
}

// Tokenize tokenizes the whole input.
func Tokenize(input string, opt Options) Result {
	z := &tokenizer{in: Preprocess(input), opt: opt}
	switch opt.ContextElement {
	case "title", "textarea":
		z.st = sRCDATA
		z.lastStartTag = opt.ContextElement
	case "style", "xmp", "iframe", "noembed", "noframes":
		z.st = sRAWTEXT
		z.lastStartTag = opt.ContextElement
	case "script":
		z.st = sScriptData
		z.lastStartTag = opt.ContextElement
	case "plaintext":
		z.st = sPLAINTEXT
	}
	z.run()
	return Result{Tokens: z.toks, FinalState: z.finalState, Input: z.in}
}

func (z *tokenizer) run() {
	in := z.in
	n := len(in)
	for {
		if z.pos >= n {
			z.finalState = stateNames[z.st]
			z.eof()
			return
		}
		c := in[z.pos]
		switch z.st {
		case sData:
			if c == '<' {
				z.tagStart = z.pos
				z.st = sTagOpen
				z.pos++
			} else {
				// '&' starts a character reference; it does not affect token structure.
				z.emitChars(in[z.pos:z.pos+1], z.pos, "data")
				z.pos++
			}
		case sRCDATA:
			if c == '<' {
				z.tagStart = z.pos
				z.st = sRCDATALessThan
				z.pos++
			} else {
				z.emitChars(in[z.pos:z.pos+1], z.pos, "rcdata")
				z.pos++
			}
		case sRAWTEXT:
			if c == '<' {
				z.tagStart = z.pos
				z.st = sRAWTEXTLessThan
				z.pos++
			} else {
				z.emitChars(in[z.pos:z.pos+1], z.pos, "rawtext")
				z.pos++
			}
		case sScriptData:
			if c == '<' {
				z.tagStart = z.pos
				z.st = sScriptLessThan
				z.pos++
			} else {
				z.emitChars(in[z.pos:z.pos+1], z.pos, "script")
				z.pos++
			}
		case sPLAINTEXT:
			z.emitChars(in[z.pos:], z.pos, "plaintext")
			z.pos = n
		case sTagOpen:
			switch {
			case c == '!':
				z.st = sMarkupDeclOpen
				z.pos++
			case c == '/':
				z.st = sEndTagOpen
				z.pos++
			case isAlpha(c):
				z.newTag(false, z.tagStart)
				z.tmp.Reset()
				z.st = sTagName
			case c == '?':
				z.commentB.Reset()
				z.commentStart = z.tagStart
				z.st = sBogusComment
			default:
				z.emitChars("<", z.tagStart, "data")
				z.st = sData
			}
		case sEndTagOpen:
			switch {
			case isAlpha(c):
				z.newTag(true, z.tagStart)
				z.tmp.Reset()
				z.st = sTagName
			case c == '>':
				z.st = sData
				z.pos++
			default:
				z.commentB.Reset()
				z.commentStart = z.tagStart
				z.st = sBogusComment
			}
		case sTagName:
			switch {
			case isWS(c):
				z.cur.Name = z.tmp.String()
				z.st = sBeforeAttrName
				z.pos++
			case c == '/':
				z.cur.Name = z.tmp.String()
				z.st = sSelfClosingStartTag
				z.pos++
			case c == '>':
				z.cur.Name = z.tmp.String()
				z.pos++
				z.emitTag(z.pos)
			default:
				if c == 0 {
					z.tmp.WriteString(replacement)
				} else {
					z.tmp.WriteByte(lower(c))
				}
				z.pos++
			}
		case sRCDATALessThan, sRAWTEXTLessThan:
			base, mode := sRCDATA, "rcdata"
			if z.st == sRAWTEXTLessThan {
				base, mode = sRAWTEXT, "rawtext"
			}
			if c == '/' {
				z.tmp.Reset()
				z.st++ // ...EndTagOpen
				z.pos++
			} else {
				z.emitChars("<", z.tagStart, mode)
				z.st = base
			}
		case sRCDATAEndTagOpen, sRAWTEXTEndTagOpen:
			base, mode := sRCDATA, "rcdata"
			if z.st == sRAWTEXTEndTagOpen {
				base, mode = sRAWTEXT, "rawtext"
			}
			if isAlpha(c) {
				z.newTag(true, z.tagStart)
				z.st++ // ...EndTagName
			} else {
				z.emitChars("</", z.tagStart, mode)
				z.st = base
			}
		case sRCDATAEndTagName, sRAWTEXTEndTagName, sScriptEndTagName, sScriptEscapedEndTagName:
			var base state
			var mode string
			switch z.st {
			case sRCDATAEndTagName:
				base, mode = sRCDATA, "rcdata"
			case sRAWTEXTEndTagName:
				base, mode = sRAWTEXT, "rawtext"
			case sScriptEndTagName:
				base, mode = sScriptData, "script"
			default:
				base, mode = sScriptEscaped, "script"
			}
			z.cur.Name = strings.ToLower(z.tmp.String())
			switch {
			case isWS(c) && z.appropriateEndTag():
				z.st = sBeforeAttrName
				z.pos++
			case c == '/' && z.appropriateEndTag():
				z.st = sSelfClosingStartTag
				z.pos++
			case c == '>' && z.appropriateEndTag():
				z.pos++
				z.emitTag(z.pos)
			case isAlpha(c):
				z.tmp.WriteByte(c)
				z.pos++
			default:
				z.emitChars("</"+z.tmp.String(), z.tagStart, mode)
				z.st = base
			}
		case sScriptLessThan:
			switch c {
			case '/':
				z.tmp.Reset()
				z.st = sScriptEndTagOpen
				z.pos++
			case '!':
				z.st = sScriptEscapeStart
				z.emitChars("<!", z.tagStart, "script")
				z.pos++
			default:
				z.emitChars("<", z.tagStart, "script")
				z.st = sScriptData
			}
		case sScriptEndTagOpen:
			if isAlpha(c) {
				z.newTag(true, z.tagStart)
				z.st = sScriptEndTagName
			} else {
				z.emitChars("</", z.tagStart, "script")
				z.st = sScriptData
			}
		case sScriptEscapeStart:
			if c == '-' {
				z.st = sScriptEscapeStartDash
				z.emitChars("-", z.pos, "script")
				z.pos++
			} else {
				z.st = sScriptData
			}
		case sScriptEscapeStartDash:
			if c == '-' {
				z.st = sScriptEscapedDashDash
				z.emitChars("-", z.pos, "script")
				z.pos++
			} else {
				z.st = sScriptData
			}
		case sScriptEscaped:
			switch c {
			case '-':
				z.st = sScriptEscapedDash
				z.emitChars("-", z.pos, "script")
				z.pos++
			case '<':
				z.tagStart = z.pos
				z.st = sScriptEscapedLessThan
				z.pos++
			default:
				z.emitChars(in[z.pos:z.pos+1], z.pos, "script")
				z.pos++
			}
		case sScriptEscapedDash:
			switch c {
			case '-':
				z.st = sScriptEscapedDashDash
				z.emitChars("-", z.pos, "script")
				z.pos++
			case '<':
				z.tagStart = z.pos
				z.st = sScriptEscapedLessThan
				z.pos++
			default:
				z.st = sScriptEscaped
				z.emitChars(in[z.pos:z.pos+1], z.pos, "script")
				z.pos++
			}
		case sScriptEscapedDashDash:
			switch c {
			case '-':
				z.emitChars("-", z.pos, "script")
				z.pos++
			case '<':
				z.tagStart = z.pos
				z.st = sScriptEscapedLessThan
				z.pos++
			case '>':
				z.st = sScriptData
				z.emitChars(">", z.pos, "script")
				z.pos++
			default:
				z.st = sScriptEscaped
				z.emitChars(in[z.pos:z.pos+1], z.pos, "script")
				z.pos++
			}
		case sScriptEscapedLessThan:
			switch {
			case c == '/':
				z.tmp.Reset()
				z.st = sScriptEscapedEndTagOpen
				z.pos++
			case isAlpha(c):
				z.tmp.Reset()
				z.emitChars("<", z.tagStart, "script")
				z.st = sScriptDoubleEscapeStart
			default:
				z.emitChars("<", z.tagStart, "script")
				z.st = sScriptEscaped
			}
		case sScriptEscapedEndTagOpen:
			if isAlpha(c) {
				z.newTag(true, z.tagStart)
				z.st = sScriptEscapedEndTagName
			} else {
				z.emitChars("</", z.tagStart, "script")
				z.st = sScriptEscaped
			}
		case sScriptDoubleEscapeStart:
			switch {
			case isWS(c) || c == '/' || c == '>':
				if strings.ToLower(z.tmp.String()) == "script" {
					z.st = sScriptDoubleEscaped
				} else {
					z.st = sScriptEscaped
				}
				z.emitChars(in[z.pos:z.pos+1], z.pos, "script")
				z.pos++
			case isAlpha(c):
				z.tmp.WriteByte(c)
				z.emitChars(in[z.pos:z.pos+1], z.pos, "script")
				z.pos++
			default:
				z.st = sScriptEscaped
			}
		case sScriptDoubleEscaped:
			switch c {
			case '-':
				z.st = sScriptDoubleEscapedDash
			case '<':
				z.st = sScriptDoubleEscapedLessThan
			}
			z.emitChars(in[z.pos:z.pos+1], z.pos, "script")
			z.pos++
		case sScriptDoubleEscapedDash:
			switch c {
			case '-':
				z.st = sScriptDoubleEscapedDashDash
			case '<':
				z.st = sScriptDoubleEscapedLessThan
			default:
				z.st = sScriptDoubleEscaped
			}
			z.emitChars(in[z.pos:z.pos+1], z.pos, "script")
			z.pos++
		case sScriptDoubleEscapedDashDash:
			switch c {
			case '-':
			case '<':
				z.st = sScriptDoubleEscapedLessThan
			case '>':
				z.st = sScriptData
			default:
				z.st = sScriptDoubleEscaped
			}
			z.emitChars(in[z.pos:z.pos+1], z.pos, "script")
			z.pos++
		case sScriptDoubleEscapedLessThan:
			if c == '/' {
				z.tmp.Reset()
				z.st = sScriptDoubleEscapeEnd
				z.emitChars("/", z.pos, "script")
				z.pos++
			} else {
				z.st = sScriptDoubleEscaped
			}
		case sScriptDoubleEscapeEnd:
			switch {
			case isWS(c) || c == '/' || c == '>':
				if strings.ToLower(z.tmp.String()) == "script" {
					z.st = sScriptEscaped
				} else {
					z.st = sScriptDoubleEscaped
				}
				z.emitChars(in[z.pos:z.pos+1], z.pos, "script")
				z.pos++
			case isAlpha(c):
				z.tmp.WriteByte(c)
				z.emitChars(in[z.pos:z.pos+1], z.pos, "script")
				z.pos++
			default:
				z.st = sScriptDoubleEscaped
			}
		case sBeforeAttrName:
			switch {
			case isWS(c):
				z.pos++
			case c == '/' || c == '>':
				z.st = sAfterAttrName
			case c == '=':
				z.startAttr()
				z.attrNameB.WriteByte('=')
				z.st = sAttrName
				z.pos++
			default:
				z.startAttr()
				z.st = sAttrName
			}
		case sAttrName:
			switch {
			case isWS(c) || c == '/' || c == '>':
				z.st = sAfterAttrName
			case c == '=':
				z.st = sBeforeAttrValue
				z.pos++
			default:
				if c == 0 {
					z.attrNameB.WriteString(replacement)
				} else {
					z.attrNameB.WriteByte(lower(c))
				}
				z.pos++
			}
		case sAfterAttrName:
			switch {
			case isWS(c):
				z.pos++
			case c == '/':
				z.st = sSelfClosingStartTag
				z.pos++
			case c == '=':
				z.st = sBeforeAttrValue
				z.pos++
			case c == '>':
				z.pos++
				z.emitTag(z.pos)
			default:
				z.startAttr()
				z.st = sAttrName
			}
		case sBeforeAttrValue:
			switch {
			case isWS(c):
				z.pos++
			case c == '"':
				z.curAttr.Quote, z.curAttr.HasValue = '"', true
				z.pos++
				z.curAttr.ValStart = z.pos
				z.curAttr.ValEnd = z.pos
				z.st = sAttrValueDQ
			case c == '\'':
				z.curAttr.Quote, z.curAttr.HasValue = '\'', true
				z.pos++
				z.curAttr.ValStart = z.pos
				z.curAttr.ValEnd = z.pos
				z.st = sAttrValueSQ
			case c == '>':
				z.pos++
				z.emitTag(z.pos)
			default:
				z.curAttr.HasValue = true
				z.curAttr.ValStart = z.pos
				z.curAttr.ValEnd = z.pos
				z.st = sAttrValueUQ
			}
		case sAttrValueDQ, sAttrValueSQ:
			q := byte('"')
			if z.st == sAttrValueSQ {
				q = '\''
			}
			if c == q {
				z.curAttr.ValEnd = z.pos
				z.st = sAfterAttrValueQ
				z.pos++
			} else {
				z.attrValB.WriteByte(c)
				z.pos++
				z.curAttr.ValEnd = z.pos
			}
		case sAttrValueUQ:
			switch {
			case isWS(c):
				z.curAttr.ValEnd = z.pos
				z.st = sBeforeAttrName
				z.pos++
			case c == '>':
				z.curAttr.ValEnd = z.pos
				z.pos++
				z.emitTag(z.pos)
			default:
				z.attrValB.WriteByte(c)
				z.pos++
				z.curAttr.ValEnd = z.pos
			}
		case sAfterAttrValueQ:
			switch {
			case isWS(c):
				z.st = sBeforeAttrName
				z.pos++
			case c == '/':
				z.st = sSelfClosingStartTag
				z.pos++
			case c == '>':
				z.pos++
				z.emitTag(z.pos)
			default:
				z.st = sBeforeAttrName
			}
		case sSelfClosingStartTag:
			if c == '>' {
				z.cur.SelfClosing = true
				z.pos++
				z.emitTag(z.pos)
			} else {
				z.st = sBeforeAttrName
			}
		case sBogusComment:
			if c == '>' {
				z.pos++
				z.emitComment(z.pos)
				z.st = sData
			} else {
				z.commentB.WriteByte(c)
				z.pos++
			}
		case sMarkupDeclOpen:
			switch {
			case strings.HasPrefix(in[z.pos:], "--"):
				z.pos += 2
				z.commentB.Reset()
				z.commentStart = z.tagStart
				z.st = sCommentStart
			case len(in)-z.pos >= 7 && strings.EqualFold(in[z.pos:z.pos+7], "doctype"):
				z.pos += 7
				z.tmp.Reset()
				z.st = sDoctype
			case strings.HasPrefix(in[z.pos:], "[CDATA["):
				if z.inForeign() {
					z.pos += 7
					z.st = sCDATASection
				} else {
					z.commentB.Reset()
					z.commentB.WriteString("[CDATA[")
					z.commentStart = z.tagStart
					z.pos += 7
					z.st = sBogusComment
				}
			default:
				z.commentB.Reset()
				z.commentStart = z.tagStart
				z.st = sBogusComment
			}
		case sCommentStart:
			switch c {
			case '-':
				z.st = sCommentStartDash
				z.pos++
			case '>':
				z.pos++
				z.emitComment(z.pos)
				z.st = sData
			default:
				z.st = sComment
			}
		case sCommentStartDash:
			switch c {
			case '-':
				z.st = sCommentEnd
				z.pos++
			case '>':
				z.pos++
				z.emitComment(z.pos)
				z.st = sData
			default:
				z.commentB.WriteByte('-')
				z.st = sComment
			}
		case sComment:
			switch c {
			case '<':
				z.commentB.WriteByte(c)
				z.st = sCommentLessThan
				z.pos++
			case '-':
				z.st = sCommentEndDash
				z.pos++
			default:
				z.commentB.WriteByte(c)
				z.pos++
			}
		case sCommentLessThan:
			switch c {
			case '!':
				z.commentB.WriteByte(c)
				z.st = sCommentLessThanBang
				z.pos++
			case '<':
				z.commentB.WriteByte(c)
				z.pos++
			default:
				z.st = sComment
			}
		case sCommentLessThanBang:
			if c == '-' {
				z.st = sCommentLessThanBangDash
				z.pos++
			} else {
				z.st = sComment
			}
		case sCommentLessThanBangDash:
			if c == '-' {
				z.st = sCommentLessThanBangDashDash
				z.pos++
			} else {
				z.st = sCommentEndDash
			}
		case sCommentLessThanBangDashDash:
			z.st = sCommentEnd
		case sCommentEndDash:
			if c == '-' {
				z.st = sCommentEnd
				z.pos++
			} else {
				z.commentB.WriteByte('-')
				z.st = sComment
			}
		case sCommentEnd:
			switch c {
			case '>':
				z.pos++
				z.emitComment(z.pos)
				z.st = sData
			case '!':
				z.st = sCommentEndBang
				z.pos++
			case '-':
				z.commentB.WriteByte('-')
				z.pos++
			default:
				z.commentB.WriteString("--")
				z.st = sComment
			}
		case sCommentEndBang:
			switch c {
			case '-':
				z.commentB.WriteString("--!")
				z.st = sCommentEndDash
				z.pos++
			case '>':
				z.pos++
				z.emitComment(z.pos)
				z.st = sData
			default:
				z.commentB.WriteString("--!")
				z.st = sComment
			}
		case sDoctype:
			// Every DOCTYPE state ends the token at the first '>'.
			if c == '>' {
				z.pos++
				z.flushText()
				z.toks = append(z.toks, Token{Type: Doctype, Data: z.tmp.String(), Start: z.tagStart, End: z.pos})
				z.st = sData
			} else {
				z.tmp.WriteByte(c)
				z.pos++
			}
		case sCDATASection:
			if c == ']' {
				z.st = sCDATASectionBracket
				z.pos++
			} else {
				z.emitChars(in[z.pos:z.pos+1], z.pos, "cdata")
				z.pos++
			}
		case sCDATASectionBracket:
			if c == ']' {
				z.st = sCDATASectionEnd
				z.pos++
			} else {
				z.emitChars("]", z.pos-1, "cdata")
				z.st = sCDATASection
			}
		case sCDATASectionEnd:
			switch c {
			case ']':
				z.emitChars("]", z.pos-2, "cdata")
				z.pos++
			case '>':
				z.st = sData
				z.pos++
			default:
				z.emitChars("]]", z.pos-2, "cdata")
				z.st = sCDATASection
			}
		default:
			panic("htmltok: unhandled state " + stateNames[z.st])
		}
	}
}

func (z *tokenizer) eof() {
	n := len(z.in)
	switch z.st {
	case sTagOpen:
		z.emitChars("<", z.tagStart, "data")
	case sEndTagOpen:
		z.emitChars("</", z.tagStart, "data")
	case sRCDATALessThan:
		z.emitChars("<", z.tagStart, "rcdata")
	case sRAWTEXTLessThan:
		z.emitChars("<", z.tagStart, "rawtext")
	case sScriptLessThan, sScriptEscapedLessThan:
		z.emitChars("<", z.tagStart, "script")
	case sRCDATAEndTagOpen:
		z.emitChars("</", z.tagStart, "rcdata")
	case sRAWTEXTEndTagOpen:
		z.emitChars("</", z.tagStart, "rawtext")
	case sScriptEndTagOpen, sScriptEscapedEndTagOpen:
		z.emitChars("</", z.tagStart, "script")
	case sRCDATAEndTagName:
		z.emitChars("</"+z.tmp.String(), z.tagStart, "rcdata")
	case sRAWTEXTEndTagName:
		z.emitChars("</"+z.tmp.String(), z.tagStart, "rawtext")
	case sScriptEndTagName, sScriptEscapedEndTagName:
		z.emitChars("</"+z.tmp.String(), z.tagStart, "script")
	case sBogusComment, sCommentStart, sCommentStartDash, sComment, sCommentLessThan, sCommentLessThanBang,
		sCommentLessThanBangDash, sCommentLessThanBangDashDash, sCommentEndDash, sCommentEnd, sCommentEndBang:
		z.emitComment(n)
	case sMarkupDeclOpen:
		z.commentB.Reset()
		z.commentStart = z.tagStart
		z.emitComment(n)
	case sDoctype:
		z.flushText()
		z.toks = append(z.toks, Token{Type: Doctype, Data: z.tmp.String(), Start: z.tagStart, End: n})
	case sCDATASectionBracket:
		z.emitChars("]", n-1, "cdata")
	case sCDATASectionEnd:
		z.emitChars("]]", n-2, "cdata")
	}
	// EOF inside a tag: the partial tag token is dropped (eof-in-tag).
	z.flushText()
}
