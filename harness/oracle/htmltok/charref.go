package htmltok

import (
	"html"
	"strings"
	"unicode/utf8"
)

// Character reference decoding as the tokenizer does it (HTML Living Standard
// 13.2.5.72-80). Numeric references are implemented here; named references are
// looked up through the standard library's entity table (html.UnescapeString of a
// single candidate), which is independent of safehtml.

var c1Map = map[rune]rune{
	0x80: 0x20AC, 0x82: 0x201A, 0x83: 0x0192, 0x84: 0x201E, 0x85: 0x2026, 0x86: 0x2020, 0x87: 0x2021,
	0x88: 0x02C6, 0x89: 0x2030, 0x8A: 0x0160, 0x8B: 0x2039, 0x8C: 0x0152, 0x8E: 0x017D, 0x91: 0x2018,
	0x92: 0x2019, 0x93: 0x201C, 0x94: 0x201D, 0x95: 0x2022, 0x96: 0x2013, 0x97: 0x2014, 0x98: 0x02DC,
	0x99: 0x2122, 0x9A: 0x0161, 0x9B: 0x203A, 0x9C: 0x0153, 0x9E: 0x017E, 0x9F: 0x0178,
}

func isAlnum(c byte) bool {
	return 'a' <= c && c <= 'z' || 'A' <= c && c <= 'Z' || '0' <= c && c <= '9'
}

// DecodeAttrValue decodes character references in a raw attribute value.
func DecodeAttrValue(raw string) string { return decodeRefs(raw, true) }

// DecodeText decodes character references in raw data / RCDATA text.
func DecodeText(raw string) string { return decodeRefs(raw, false) }

func decodeRefs(s string, attr bool) string {
	if !strings.Contains(s, "&") {
		return s
	}
	var b strings.Builder
	for i := 0; i < len(s); {
		if s[i] != '&' {
			b.WriteByte(s[i])
			i++
			continue
		}
		out, n := decodeOne(s[i:], attr)
		b.WriteString(out)
		i += n
	}
	return b.String()
}

// decodeOne decodes the reference at the start of s (s[0]=='&'); returns the
// replacement and the number of bytes consumed.
func decodeOne(s string, attr bool) (string, int) {
	if len(s) < 2 {
		return "&", 1
	}
	if s[1] == '#' {
		j := 2
		hex := false
		if j < len(s) && (s[j] == 'x' || s[j] == 'X') {
			hex = true
			j++
		}
		st := j
		var v rune
		over := false
		for j < len(s) {
			c := s[j]
			var d int
			switch {
			case '0' <= c && c <= '9':
				d = int(c - '0')
			case hex && 'a' <= c && c <= 'f':
				d = int(c-'a') + 10
			case hex && 'A' <= c && c <= 'F':
				d = int(c-'A') + 10
			default:
				d = -1
			}
			if d < 0 {
				break
			}
			if hex {
				v = v*16 + rune(d)
			} else {
				v = v*10 + rune(d)
			}
			if v > 0x10FFFF {
				over = true
				v = 0x110000
			}
			j++
		}
		if j == st {
			// absence-of-digits: the characters are emitted as they are
			return s[:st], st
		}
		if j < len(s) && s[j] == ';' {
			j++
		}
		switch {
		case v == 0, over, v > 0x10FFFF, v >= 0xD800 && v <= 0xDFFF:
			v = 0xFFFD
		default:
			if m, ok := c1Map[v]; ok {
				v = m
			}
		}
		return string(v), j
	}
	// named
	j := 1
	for j < len(s) && isAlnum(s[j]) {
		j++
	}
	name := s[1:j]
	if name == "" {
		return "&", 1
	}
	if j < len(s) && s[j] == ';' {
		t := "&" + name + ";"
		u := html.UnescapeString(t)
		if u != t && utf8.RuneCountInString(u) <= 2 {
			return u, j + 1
		}
	}
	for l := len(name); l >= 2; l-- {
		t := "&" + name[:l]
		u := html.UnescapeString(t)
		if u != t && utf8.RuneCountInString(u) == 1 {
			// matched without semicolon (legacy entity)
			if attr {
				next := byte(0)
				if 1+l < len(s) {
					next = s[1+l]
				}
				if next == '=' || isAlnum(next) {
					return s[:j], j
				}
			}
			return u, 1 + l
		}
	}
	return s[:j], j
}
