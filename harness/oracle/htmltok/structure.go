package htmltok

import "strings"

// Structure returns the structural signature of a token stream: one entry per start
// tag (name, attribute names in order, self-closing flag), end tag, comment and
// doctype, plus the final tokenizer state. Character data is ignored: data may
// legitimately change the contents (and existence) of text.
func Structure(res Result) []string {
	var out []string
	for _, t := range res.Tokens {
		switch t.Type {
		case StartTag:
			var b strings.Builder
			b.WriteString("<" + t.Name)
			for _, a := range t.Attrs {
				b.WriteString(" " + a.Name)
			}
			if t.SelfClosing {
				b.WriteString(" /")
			}
			b.WriteString(">")
			out = append(out, b.String())
		case EndTag:
			out = append(out, "</"+t.Name+">")
		case Comment:
			out = append(out, "<!---->")
		case Doctype:
			out = append(out, "<!doctype>")
		}
	}
	return append(out, "@"+res.FinalState)
}

// NoComments removes comment entries from a structure.
func NoComments(s []string) []string {
	out := s[:0:0]
	for _, e := range s {
		if e != "<!---->" {
			out = append(out, e)
		}
	}
	return out
}

// Where describes the syntactic position of a byte offset of the input.
type Where struct {
	// Kind: text | attr-value | tag | comment | doctype | none (inside a construct that
	// was still open at EOF).
	Kind  string
	Mode  string // for text: data rcdata rawtext script plaintext cdata
	Tok   *Token
	Attr  *Attr
	Quote byte
	Dup   bool // the attribute is a dropped duplicate
}

// Locate finds the token (and attribute value) that contains byte offset pos of
// res.Input.
func Locate(res Result, pos int) Where {
	for i := range res.Tokens {
		t := &res.Tokens[i]
		if pos < t.Start || pos >= t.End {
			continue
		}
		switch t.Type {
		case Text:
			return Where{Kind: "text", Mode: t.Mode, Tok: t}
		case Comment:
			return Where{Kind: "comment", Tok: t}
		case Doctype:
			return Where{Kind: "doctype", Tok: t}
		default:
			for j := range t.Attrs {
				a := &t.Attrs[j]
				if a.HasValue && pos >= a.ValStart && pos < a.ValEnd {
					return Where{Kind: "attr-value", Tok: t, Attr: a, Quote: a.Quote}
				}
			}
			for j := range t.DupAttrs {
				a := &t.DupAttrs[j]
				if a.HasValue && pos >= a.ValStart && pos < a.ValEnd {
					return Where{Kind: "attr-value", Tok: t, Attr: a, Quote: a.Quote, Dup: true}
				}
			}
			return Where{Kind: "tag", Tok: t}
		}
	}
	return Where{Kind: "none:" + res.FinalState}
}
