package refs

import "testing"

func TestScheme(t *testing.T) {
	for _, c := range []struct{ in, want string }{
		{"javascript:alert(1)", "javascript"}, {"JaVaScRiPt:x", "javascript"}, {" \x01javascript:x", "javascript"}, {"java\tscr\nipt\r:x", "javascript"},
		{"javascript&colon;x", ""}, {"java script:x", ""}, {"/javascript:x", ""}, {"1javascript:x", ""}, {":x", ""}, {"", ""}, {"http://a/b:c", "http"},
		{"a+b-c.d:x", "a+b-c.d"}, {"javascript\x00:x", ""}, {"javascript :x", ""}, {"javascript", ""}, {"ſ:x", ""}, {"x:y", "x"}, {" javascript:x", ""},
	} {
		if g := Scheme(c.in); g != c.want {
			t.Errorf("Scheme(%q)=%q want %q", c.in, g, c.want)
		}
	}
}

func TestSrcset(t *testing.T) {
	type cd struct {
		url   string
		descs int
	}
	for _, c := range []struct {
		in   string
		want []cd
	}{
		{"a.png 1x, b.png 2x", []cd{{"a.png", 1}, {"b.png", 1}}},
		{"a.png,b.png", []cd{{"a.png,b.png", 0}}},
		{"a.png, b.png", []cd{{"a.png", 0}, {"b.png", 0}}},
		{" , a 1x 2x ,", []cd{{"a", 2}}},
		{"a (1, 2) x, b", []cd{{"a", 2}, {"b", 0}}},
		{"javascript:x 1x", []cd{{"javascript:x", 1}}},
		{"a,, b", []cd{{"a", 0}, {"b", 0}}},
		{"", nil},
		{",,,", nil},
		{"a\t1x\n,\fb", []cd{{"a", 1}, {"b", 0}}},
	} {
		got := Srcset(c.in)
		if len(got) != len(c.want) {
			t.Errorf("Srcset(%q) = %v, want %v", c.in, got, c.want)
			continue
		}
		for i := range got {
			if got[i].URL != c.want[i].url || len(got[i].Descs) != c.want[i].descs {
				t.Errorf("Srcset(%q)[%d] = %v, want %v", c.in, i, got[i], c.want[i])
			}
		}
	}
}

func TestCoerce(t *testing.T) {
	for _, c := range []struct{ in, want string }{
		{"abc", "abc"}, {"a\x00b", "a�b"}, {"\t\n\f\r", "\t\n\f\r"}, {"\x0b\x7f\u0085", "���"}, {"﷐￾\U0001ffff", "���"},
		{"\xff", "�"}, {"\xc0\xaf", "��"}, {"\xe0\x80\xaf", "���"}, {"\xed\xa0\x80", "���"}, {"\xf4\x90\x80\x80", "����"},
		{"\xe2\x82", "��"}, {"é\xc3", "é�"}, {"\U0010fffd", "\U0010fffd"}, {"�", "�"},
	} {
		if g := Coerce(c.in); g != c.want {
			t.Errorf("Coerce(%q)=%q want %q", c.in, g, c.want)
		}
	}
}

func TestSafeTRUPrefixAndDots(t *testing.T) {
	for in, want := range map[string]bool{
		"https://a.b/": true, "HTTPS://A/x": true, "//h:80/": true, "/x": true, "/": false, "//": false, "///x": false, "/\\x": false, "about:blank#": true, "about:blank": false,
		"http://a/": false, "https://a": false, "https://a b/": false, "https://u@h/": false, "": false, "x": false, "https://[::1]/": true,
	} {
		if g := SafeTRUPrefix(in); g != want {
			t.Errorf("SafeTRUPrefix(%q)=%v want %v", in, g, want)
		}
	}
	if !DotDotWithArg("/a/../b", []Span{{3, 5}}) || DotDotWithArg("/a/../b", []Span{{6, 7}}) || !DotDotWithArg("/a/.%2E", []Span{{4, 7}}) || DotDotWithArg("/a?..", []Span{{3, 5}}) {
		t.Error("DotDotWithArg")
	}
	if Enc("a b/é~") != "a%20b%2f%c3%a9~" {
		t.Errorf("Enc: %q", Enc("a b/é~"))
	}
}
