// Package refs holds the small reference functions used by the design-probing runs
// for C10-C14: WHATWG scheme scanner, srcset candidate parser, reference UTF-8
// coercion, unreserved percent-encoder, TrustedResourceURL safe-prefix recogniser and
// the dot-dot-segment helper. Independent of safehtml.
package refs

import (
	"fmt"
	"regexp"
	"strings"
)

// Scheme returns the lower-cased scheme a WHATWG URL parser finds in s ("" if none):
// leading/trailing C0 controls and spaces are stripped, TAB/LF/CR are removed anywhere,
// then the scheme start / scheme states are run.
func Scheme(s string) string {
	i, j := 0, len(s)
	for i < j && s[i] <= 0x20 {
		i++
	}
	for j > i && s[j-1] <= 0x20 {
		j--
	}
	s = s[i:j]
	var b strings.Builder
	for k := 0; k < len(s); k++ {
		if s[k] == '\t' || s[k] == '\n' || s[k] == '\r' {
			continue
		}
		b.WriteByte(s[k])
	}
	s = b.String()
	for k := 0; k < len(s); k++ {
		c := s[k]
		al := 'a' <= c && c <= 'z' || 'A' <= c && c <= 'Z'
		if c == ':' {
			if k == 0 {
				return ""
			}
			return strings.ToLower(s[:k])
		}
		if k == 0 && !al {
			return ""
		}
		if !(al || '0' <= c && c <= '9' || c == '+' || c == '-' || c == '.') {
			return ""
		}
	}
	return ""
}

// Candidate is one image candidate string before descriptor validation.
type Candidate struct {
	URL   string
	Descs []string
}

func isWS(c byte) bool { return c == '\t' || c == '\n' || c == '\f' || c == '\r' || c == ' ' }

// Srcset implements "parse a srcset attribute" up to and including the descriptor
// tokenizer; candidates are returned whether or not their descriptors are valid.
func Srcset(in string) []Candidate {
	var out []Candidate
	p, n := 0, len(in)
	for {
		for p < n && (isWS(in[p]) || in[p] == ',') {
			p++
		}
		if p >= n {
			return out
		}
		st := p
		for p < n && !isWS(in[p]) {
			p++
		}
		url := in[st:p]
		var descs []string
		if strings.HasSuffix(url, ",") {
			url = strings.TrimRight(url, ",")
		} else {
			for p < n && isWS(in[p]) {
				p++
			}
			cur := ""
			state := 0 // 0 in descriptor, 1 in parens, 2 after descriptor
		loop:
			for {
				if p >= n {
					if cur != "" {
						descs = append(descs, cur)
					}
					break loop
				}
				c := in[p]
				switch state {
				case 0:
					switch {
					case isWS(c):
						if cur != "" {
							descs = append(descs, cur)
							cur = ""
							state = 2
						}
					case c == ',':
						p++
						if cur != "" {
							descs = append(descs, cur)
						}
						break loop
					case c == '(':
						cur += "("
						state = 1
					default:
						cur += string(c)
					}
				case 1:
					if c == ')' {
						cur += ")"
						state = 0
					} else {
						cur += string(c)
					}
				case 2:
					if !isWS(c) {
						state = 0
						p--
					}
				}
				p++
			}
		}
		out = append(out, Candidate{url, descs})
	}
}

// Forbidden reports whether r is excluded from interchange-valid text (C10).
func Forbidden(r rune) bool {
	nonchar := r >= 0xFDD0 && r <= 0xFDEF || r&0xFFFE == 0xFFFE
	return r == 0 || r < 0x20 && r != '\t' && r != '\n' && r != '\f' && r != '\r' || r >= 0x7F && r <= 0x9F || nonchar
}

func cont(c byte) bool { return c&0xC0 == 0x80 }

// Coerce is the reference for coerceToUTF8InterchangeValid: every byte that is not
// part of a well-formed UTF-8 sequence (Unicode Table 3-7) becomes one U+FFFD, and so
// does every forbidden code point.
func Coerce(s string) string {
	var b strings.Builder
	for i := 0; i < len(s); {
		c := s[i]
		var r rune
		w := 0
		switch {
		case c < 0x80:
			r, w = rune(c), 1
		case c >= 0xC2 && c <= 0xDF && i+1 < len(s) && cont(s[i+1]):
			r, w = rune(c&0x1F)<<6|rune(s[i+1]&0x3F), 2
		case c >= 0xE0 && c <= 0xEF && i+2 < len(s) && cont(s[i+1]) && cont(s[i+2]):
			lo, hi := byte(0x80), byte(0xBF)
			if c == 0xE0 {
				lo = 0xA0
			}
			if c == 0xED {
				hi = 0x9F
			}
			if s[i+1] >= lo && s[i+1] <= hi {
				r, w = rune(c&0x0F)<<12|rune(s[i+1]&0x3F)<<6|rune(s[i+2]&0x3F), 3
			}
		case c >= 0xF0 && c <= 0xF4 && i+3 < len(s) && cont(s[i+1]) && cont(s[i+2]) && cont(s[i+3]):
			lo, hi := byte(0x80), byte(0xBF)
			if c == 0xF0 {
				lo = 0x90
			}
			if c == 0xF4 {
				hi = 0x8F
			}
			if s[i+1] >= lo && s[i+1] <= hi {
				r, w = rune(c&0x07)<<18|rune(s[i+1]&0x3F)<<12|rune(s[i+2]&0x3F)<<6|rune(s[i+3]&0x3F), 4
			}
		}
		if w == 0 {
			b.WriteRune(0xFFFD)
			i++
			continue
		}
		if Forbidden(r) {
			b.WriteRune(0xFFFD)
		} else {
			b.WriteRune(r)
		}
		i += w
	}
	return b.String()
}

// Enc percent-encodes everything but RFC 3986 unreserved characters (lower-case hex,
// as the library does).
func Enc(s string) string {
	var b strings.Builder
	for i := 0; i < len(s); i++ {
		c := s[i]
		if 'a' <= c && c <= 'z' || 'A' <= c && c <= 'Z' || '0' <= c && c <= '9' || c == '-' || c == '.' || c == '_' || c == '~' {
			b.WriteByte(c)
		} else {
			fmt.Fprintf(&b, "%%%02x", c)
		}
	}
	return b.String()
}

var originRe = regexp.MustCompile(`^[0-9A-Za-z.:\[\]-]+$`)

// SafeTRUPrefix recognises https://origin/, //origin/, /x (x not / or \) and about:blank#.
func SafeTRUPrefix(s string) bool {
	// ASCII case-insensitive: U+017F (long s) and U+212A (Kelvin sign), which Unicode folds to
	// 's' and 'k', are not letters of "https" or "about:blank" for a URL parser.
	l := asciiLower(s)
	rest := ""
	switch {
	case strings.HasPrefix(l, "about:blank#"):
		return true
	case strings.HasPrefix(l, "https://"):
		rest = s[8:]
	case strings.HasPrefix(l, "//"):
		rest = s[2:]
	case strings.HasPrefix(s, "/"):
		// tab, LF and CR are removed by URL parsers before anything else
		return len(s) > 1 && s[1] != '/' && s[1] != '\\' && s[1] != '\t' && s[1] != '\n' && s[1] != '\r'
	default:
		return false
	}
	i := strings.IndexByte(rest, '/')
	return i > 0 && originRe.MatchString(rest[:i])
}

func asciiLower(s string) string {
	b := []byte(s)
	for i, c := range b {
		if 'A' <= c && c <= 'Z' {
			b[i] = c + 32
		}
	}
	return string(b)
}

// NormalizedDepth returns the number of path segments that a URL parser (WHATWG, for http(s),
// scheme-relative and path-absolute URLs) is left with after it has removed tab, LF and CR,
// trimmed C0 controls and spaces at the ends, read "\\" as "/", and resolved "." and ".."
// segments (also in their %2e forms); -1 if the URL climbs above its root.
func NormalizedDepth(u string) int {
	u = strings.NewReplacer("\t", "", "\n", "", "\r", "").Replace(u)
	u = strings.TrimFunc(u, func(r rune) bool { return r <= 0x20 })
	if i := strings.IndexAny(u, "?#"); i >= 0 {
		u = u[:i]
	}
	u = strings.ReplaceAll(u, "\\", "/")
	// drop scheme and authority
	l := asciiLower(u)
	switch {
	case strings.HasPrefix(l, "https://") || strings.HasPrefix(l, "http://"):
		u = u[strings.Index(u, "//")+2:]
		if i := strings.IndexByte(u, '/'); i >= 0 {
			u = u[i:]
		} else {
			u = "/"
		}
	case strings.HasPrefix(u, "//"):
		u = u[2:]
		if i := strings.IndexByte(u, '/'); i >= 0 {
			u = u[i:]
		} else {
			u = "/"
		}
	}
	depth, clamped := 0, false
	segs := strings.Split(strings.TrimPrefix(u, "/"), "/")
	for _, seg := range segs {
		switch strings.ReplaceAll(strings.ToLower(seg), "%2e", ".") {
		case ".":
		case "..":
			if depth == 0 {
				clamped = true
			} else {
				depth--
			}
		default:
			depth++
		}
	}
	if clamped {
		return -1
	}
	return depth
}

// IsDotDot reports whether a path segment is the ".." dot-segment in plain or
// percent-encoded form.
func IsDotDot(seg string) bool {
	return strings.ReplaceAll(strings.ToLower(seg), "%2e", ".") == ".."
}

// Span is a half-open byte range of a result string contributed by an argument.
type Span struct{ A, B int }

// DotDotWithArg reports whether a path segment of res (before the first ? or #) that
// contains at least one byte of a non-empty argument span is a dot-dot segment.
func DotDotWithArg(res string, spans []Span) bool { return dotDot(res, spans, false) }

// DotDotTouchingArg is DotDotWithArg for format strings with markers: an empty span also
// takes part in the segment it lies in or touches, because whether `.%{x}.` or `%{x}..` is a
// dot-dot segment depends on the argument alone.
func DotDotTouchingArg(res string, spans []Span) bool { return dotDot(res, spans, true) }

// DotDotSplitByArg is DotDotWithArg for template values: an empty span also counts if it lies
// strictly inside the segment, i.e. the static text has dots on both sides of the datum
// (`/a/.{{.X}}./`), but not if it merely follows or precedes a ".." the author wrote.
func DotDotSplitByArg(res string, spans []Span) bool {
	if dotDot(res, spans, false) {
		return true
	}
	end := len(res)
	if i := strings.IndexAny(res, "?#"); i >= 0 {
		end = i
	}
	for st := 0; st <= end; {
		e := st
		for e < end && res[e] != '/' {
			e++
		}
		if IsDotDot(res[st:e]) {
			for _, sp := range spans {
				if sp.A == sp.B && sp.A > st && sp.A < e {
					return true
				}
			}
		}
		st = e + 1
	}
	return false
}

func dotDot(res string, spans []Span, empty bool) bool {
	end := len(res)
	if i := strings.IndexAny(res, "?#"); i >= 0 {
		end = i
	}
	st := 0
	for st <= end {
		e := st
		for e < end && res[e] != '/' {
			e++
		}
		if IsDotDot(res[st:e]) {
			for _, sp := range spans {
				if sp.B > sp.A && sp.A < e && sp.B > st || empty && sp.A == sp.B && sp.A >= st && sp.A <= e {
					return true
				}
			}
		}
		st = e + 1
	}
	return false
}
