// Package csssyn is an independent implementation of the CSS Syntax Module
// Level 3 tokenizer and of the rule-list / declaration-list parsers, used as an
// oracle. It shares no code with safehtml.
package csssyn

import (
	"strings"
)

// Kind is a token kind.
type Kind int

// Token kinds.
const (
	Ident Kind = iota
	Function
	AtKeyword
	Hash
	String
	BadString
	URL
	BadURL
	Delim
	Number
	Percentage
	Dimension
	Whitespace
	CDO
	CDC
	Colon
	Semicolon
	Comma
	LBracket
	RBracket
	LParen
	RParen
	LBrace
	RBrace
	Comment // not a real token; reported so that oracles can forbid comments
)

var kindNames = [...]string{"ident", "function", "at-keyword", "hash", "string", "bad-string", "url", "bad-url", "delim", "number", "percentage", "dimension",
	"whitespace", "CDO", "CDC", "colon", "semicolon", "comma", "[", "]", "(", ")", "{", "}", "comment"}

func (k Kind) String() string { return kindNames[k] }

// Token is a CSS token.
type Token struct {
	Kind  Kind
	Value string // ident/function/at/hash name, string/url value, delim char, number repr
	Unit  string // dimension unit
	Raw   string // source text
	// Unterminated is set for strings, urls and comments that were ended by EOF.
	Unterminated bool
}

type tokenizer struct {
	r   []rune
	pos int
	out []Token
}

// preprocess implements input preprocessing on decoded code points.
func preprocess(s string) []rune {
	rs := []rune(s) // invalid UTF-8 -> U+FFFD
	out := rs[:0:0]
	for i := 0; i < len(rs); i++ {
		c := rs[i]
		switch {
		case c == '\r':
			if i+1 < len(rs) && rs[i+1] == '\n' {
				i++
			}
			out = append(out, '\n')
		case c == '\f':
			out = append(out, '\n')
		case c == 0 || c >= 0xD800 && c <= 0xDFFF:
			out = append(out, 0xFFFD)
		default:
			out = append(out, c)
		}
	}
	return out
}

func (z *tokenizer) peek(n int) rune {
	if z.pos+n < len(z.r) {
		return z.r[z.pos+n]
	}
	return -1
}

func isWS(c rune) bool    { return c == '\n' || c == '\t' || c == ' ' }
func isDigit(c rune) bool { return '0' <= c && c <= '9' }
func isHex(c rune) bool   { return isDigit(c) || 'a' <= c && c <= 'f' || 'A' <= c && c <= 'F' }
func isNameStart(c rune) bool {
	return 'a' <= c && c <= 'z' || 'A' <= c && c <= 'Z' || c >= 0x80 || c == '_'
}
func isName(c rune) bool { return isNameStart(c) || isDigit(c) || c == '-' }
func isNonPrintable(c rune) bool {
	return c >= 0 && c <= 8 || c == 0xB || c >= 0xE && c <= 0x1F || c == 0x7F
}

// validEscape: CSS Syntax 4.3.8 (EOF after the backslash is a valid escape that yields U+FFFD).
func validEscape(a, b rune) bool { return a == '\\' && b != '\n' }

func (z *tokenizer) wouldStartIdent(o int) bool {
	a, b, c := z.peek(o), z.peek(o+1), z.peek(o+2)
	switch {
	case a == '-':
		return isNameStart(b) || b == '-' || validEscape(b, c)
	case a != -1 && isNameStart(a):
		return true
	case a == '\\':
		return validEscape(a, b)
	}
	return false
}

func (z *tokenizer) startsNumber(o int) bool {
	a, b, c := z.peek(o), z.peek(o+1), z.peek(o+2)
	switch {
	case a == '+' || a == '-':
		return isDigit(b) || b == '.' && isDigit(c)
	case a == '.':
		return isDigit(b)
	}
	return isDigit(a)
}

func (z *tokenizer) consumeEscaped() rune {
	// the backslash has been consumed
	c := z.peek(0)
	if c == -1 {
		return 0xFFFD
	}
	z.pos++
	if isHex(c) {
		v := hexVal(c)
		for n := 1; n < 6 && isHex(z.peek(0)); n++ {
			v = v*16 + hexVal(z.peek(0))
			z.pos++
		}
		if isWS(z.peek(0)) {
			z.pos++
		}
		if v == 0 || v >= 0xD800 && v <= 0xDFFF || v > 0x10FFFF {
			return 0xFFFD
		}
		return rune(v)
	}
	return c
}

func hexVal(c rune) int {
	switch {
	case isDigit(c):
		return int(c - '0')
	case c >= 'a':
		return int(c-'a') + 10
	}
	return int(c-'A') + 10
}

func (z *tokenizer) consumeName() string {
	var b strings.Builder
	for {
		c := z.peek(0)
		switch {
		case c != -1 && isName(c):
			b.WriteRune(c)
			z.pos++
		case validEscape(c, z.peek(1)):
			z.pos++
			b.WriteRune(z.consumeEscaped())
		default:
			return b.String()
		}
	}
}

func (z *tokenizer) emit(t Token, start int) {
	t.Raw = string(z.r[start:z.pos])
	z.out = append(z.out, t)
}

func (z *tokenizer) consumeString(q rune, start int) {
	var b strings.Builder
	for {
		c := z.peek(0)
		switch {
		case c == q:
			z.pos++
			z.emit(Token{Kind: String, Value: b.String()}, start)
			return
		case c == -1:
			z.emit(Token{Kind: String, Value: b.String(), Unterminated: true}, start)
			return
		case c == '\n':
			z.emit(Token{Kind: BadString, Value: b.String()}, start)
			return
		case c == '\\':
			n := z.peek(1)
			if n == -1 {
				z.pos++
			} else if n == '\n' {
				z.pos += 2
			} else {
				z.pos++
				b.WriteRune(z.consumeEscaped())
			}
		default:
			b.WriteRune(c)
			z.pos++
		}
	}
}

func (z *tokenizer) consumeBadURLRemnants() {
	for {
		c := z.peek(0)
		if c == -1 {
			return
		}
		if c == ')' {
			z.pos++
			return
		}
		if validEscape(c, z.peek(1)) {
			z.pos++
			z.consumeEscaped()
			continue
		}
		z.pos++
	}
}

func (z *tokenizer) consumeURL(start int) {
	for isWS(z.peek(0)) {
		z.pos++
	}
	var b strings.Builder
	for {
		c := z.peek(0)
		switch {
		case c == ')':
			z.pos++
			z.emit(Token{Kind: URL, Value: b.String()}, start)
			return
		case c == -1:
			z.emit(Token{Kind: URL, Value: b.String(), Unterminated: true}, start)
			return
		case isWS(c):
			for isWS(z.peek(0)) {
				z.pos++
			}
			if z.peek(0) == ')' {
				z.pos++
				z.emit(Token{Kind: URL, Value: b.String()}, start)
				return
			}
			if z.peek(0) == -1 {
				z.emit(Token{Kind: URL, Value: b.String(), Unterminated: true}, start)
				return
			}
			z.consumeBadURLRemnants()
			z.emit(Token{Kind: BadURL}, start)
			return
		case c == '"' || c == '\'' || c == '(' || isNonPrintable(c):
			z.consumeBadURLRemnants()
			z.emit(Token{Kind: BadURL}, start)
			return
		case c == '\\':
			if validEscape(c, z.peek(1)) {
				z.pos++
				b.WriteRune(z.consumeEscaped())
			} else {
				z.consumeBadURLRemnants()
				z.emit(Token{Kind: BadURL}, start)
				return
			}
		default:
			b.WriteRune(c)
			z.pos++
		}
	}
}

func (z *tokenizer) consumeIdentLike(start int) {
	name := z.consumeName()
	if strings.EqualFold(name, "url") && z.peek(0) == '(' {
		z.pos++
		for isWS(z.peek(0)) && isWS(z.peek(1)) {
			z.pos++
		}
		a, b := z.peek(0), z.peek(1)
		if a == '"' || a == '\'' || isWS(a) && (b == '"' || b == '\'') {
			z.emit(Token{Kind: Function, Value: name}, start)
			return
		}
		z.consumeURL(start)
		return
	}
	if z.peek(0) == '(' {
		z.pos++
		z.emit(Token{Kind: Function, Value: name}, start)
		return
	}
	z.emit(Token{Kind: Ident, Value: name}, start)
}

func (z *tokenizer) consumeNumeric(start int) {
	if c := z.peek(0); c == '+' || c == '-' {
		z.pos++
	}
	for isDigit(z.peek(0)) {
		z.pos++
	}
	if z.peek(0) == '.' && isDigit(z.peek(1)) {
		z.pos += 2
		for isDigit(z.peek(0)) {
			z.pos++
		}
	}
	if c := z.peek(0); c == 'e' || c == 'E' {
		n := z.peek(1)
		if isDigit(n) || (n == '+' || n == '-') && isDigit(z.peek(2)) {
			z.pos += 2
			for isDigit(z.peek(0)) {
				z.pos++
			}
		}
	}
	repr := string(z.r[start:z.pos])
	switch {
	case z.wouldStartIdent(0):
		unit := z.consumeName()
		z.emit(Token{Kind: Dimension, Value: repr, Unit: unit}, start)
	case z.peek(0) == '%':
		z.pos++
		z.emit(Token{Kind: Percentage, Value: repr}, start)
	default:
		z.emit(Token{Kind: Number, Value: repr}, start)
	}
}

// Tokenize tokenizes s. Comments are reported as Comment pseudo-tokens.
func Tokenize(s string) []Token {
	z := &tokenizer{r: preprocess(s)}
	for {
		start := z.pos
		// comments
		if z.peek(0) == '/' && z.peek(1) == '*' {
			z.pos += 2
			term := false
			for z.peek(0) != -1 {
				if z.peek(0) == '*' && z.peek(1) == '/' {
					z.pos += 2
					term = true
					break
				}
				z.pos++
			}
			z.emit(Token{Kind: Comment, Unterminated: !term}, start)
			continue
		}
		c := z.peek(0)
		if c == -1 {
			return z.out
		}
		simple := func(k Kind) {
			z.pos++
			z.emit(Token{Kind: k, Value: string(c)}, start)
		}
		switch {
		case isWS(c):
			for isWS(z.peek(0)) {
				z.pos++
			}
			z.emit(Token{Kind: Whitespace}, start)
		case c == '"' || c == '\'':
			z.pos++
			z.consumeString(c, start)
		case c == '#':
			if n := z.peek(1); n != -1 && isName(n) || validEscape(z.peek(1), z.peek(2)) {
				z.pos++
				name := z.consumeName()
				z.emit(Token{Kind: Hash, Value: name}, start)
			} else {
				simple(Delim)
			}
		case c == '(':
			simple(LParen)
		case c == ')':
			simple(RParen)
		case c == ',':
			simple(Comma)
		case c == ':':
			simple(Colon)
		case c == ';':
			simple(Semicolon)
		case c == '[':
			simple(LBracket)
		case c == ']':
			simple(RBracket)
		case c == '{':
			simple(LBrace)
		case c == '}':
			simple(RBrace)
		case c == '+' || c == '.':
			if z.startsNumber(0) {
				z.consumeNumeric(start)
			} else {
				simple(Delim)
			}
		case c == '-':
			switch {
			case z.startsNumber(0):
				z.consumeNumeric(start)
			case z.peek(1) == '-' && z.peek(2) == '>':
				z.pos += 3
				z.emit(Token{Kind: CDC}, start)
			case z.wouldStartIdent(0):
				z.consumeIdentLike(start)
			default:
				simple(Delim)
			}
		case c == '<':
			if z.peek(1) == '!' && z.peek(2) == '-' && z.peek(3) == '-' {
				z.pos += 4
				z.emit(Token{Kind: CDO}, start)
			} else {
				simple(Delim)
			}
		case c == '@':
			if z.wouldStartIdent(1) {
				z.pos++
				name := z.consumeName()
				z.emit(Token{Kind: AtKeyword, Value: name}, start)
			} else {
				simple(Delim)
			}
		case c == '\\':
			if validEscape(c, z.peek(1)) {
				z.consumeIdentLike(start)
			} else {
				simple(Delim)
			}
		case isDigit(c):
			z.consumeNumeric(start)
		case isNameStart(c):
			z.consumeIdentLike(start)
		default:
			simple(Delim)
		}
	}
}

// ---------------- parsing ----------------

// Declaration is one parsed declaration.
type Declaration struct {
	Name  string
	Value []Token // component values, flattened (blocks are kept as their tokens)
}

// DeclList is the result of "consume a list of declarations".
type DeclList struct {
	Decls []Declaration
	// Junk counts constructs that are not declarations (at-rules, invalid
	// declarations dropped by error recovery).
	Junk int
	// Unclosed reports that a block or function was still open at EOF.
	Unclosed bool
}

func noComments(ts []Token) []Token {
	out := ts[:0:0]
	for _, t := range ts {
		if t.Kind != Comment {
			out = append(out, t)
		}
	}
	return out
}

var closer = map[Kind]Kind{LBrace: RBrace, LBracket: RBracket, LParen: RParen, Function: RParen}

// consumeComponent consumes one component value starting at ts[i] and returns
// the index after it and whether a block was left unclosed.
func consumeComponent(ts []Token, i int) (int, bool) {
	if end, ok := closer[ts[i].Kind]; ok {
		i++
		for i < len(ts) {
			if ts[i].Kind == end {
				return i + 1, false
			}
			var unc bool
			i, unc = consumeComponent(ts, i)
			if unc {
				return i, true
			}
		}
		return i, true
	}
	return i + 1, false
}

// ParseDeclarationList implements "consume a list of declarations".
func ParseDeclarationList(s string) DeclList {
	ts := noComments(Tokenize(s))
	var dl DeclList
	i := 0
	for i < len(ts) {
		t := ts[i]
		switch t.Kind {
		case Whitespace, Semicolon:
			i++
		case AtKeyword:
			dl.Junk++
			// consume an at-rule: until semicolon or a {} block
			i++
			for i < len(ts) && ts[i].Kind != Semicolon {
				isBlock := ts[i].Kind == LBrace
				var unc bool
				i, unc = consumeComponent(ts, i)
				dl.Unclosed = dl.Unclosed || unc
				if isBlock {
					break
				}
			}
		case Ident:
			// collect component values up to the next semicolon
			start := i
			for i < len(ts) && ts[i].Kind != Semicolon {
				var unc bool
				i, unc = consumeComponent(ts, i)
				dl.Unclosed = dl.Unclosed || unc
			}
			tmp := ts[start:i]
			// consume a declaration
			j := 1
			for j < len(tmp) && tmp[j].Kind == Whitespace {
				j++
			}
			if j >= len(tmp) || tmp[j].Kind != Colon {
				dl.Junk++
				break
			}
			j++
			for j < len(tmp) && tmp[j].Kind == Whitespace {
				j++
			}
			val := tmp[j:]
			for len(val) > 0 && val[len(val)-1].Kind == Whitespace {
				val = val[:len(val)-1]
			}
			dl.Decls = append(dl.Decls, Declaration{Name: tmp[0].Value, Value: val})
		default:
			dl.Junk++
			for i < len(ts) && ts[i].Kind != Semicolon {
				var unc bool
				i, unc = consumeComponent(ts, i)
				dl.Unclosed = dl.Unclosed || unc
			}
		}
	}
	return dl
}

// Rule is a qualified rule or an at-rule.
type Rule struct {
	At       bool
	Prelude  []Token
	Block    []Token // tokens inside the {} block, nil if none
	HasBlock bool
	Unclosed bool
}

// ParseStylesheet implements "parse a stylesheet" (top-level flag set).
func ParseStylesheet(s string) []Rule {
	ts := noComments(Tokenize(s))
	var rules []Rule
	i := 0
	for i < len(ts) {
		switch ts[i].Kind {
		case Whitespace, CDO, CDC:
			i++
		default:
			r := Rule{At: ts[i].Kind == AtKeyword}
			for i < len(ts) {
				if ts[i].Kind == LBrace {
					st := i + 1
					var unc bool
					i, unc = consumeComponent(ts, i)
					r.HasBlock, r.Unclosed = true, unc
					end := i
					if !unc {
						end = i - 1
					}
					r.Block = ts[st:end]
					break
				}
				if r.At && ts[i].Kind == Semicolon {
					i++
					break
				}
				st := i
				var unc bool
				i, unc = consumeComponent(ts, i)
				r.Unclosed = r.Unclosed || unc
				r.Prelude = append(r.Prelude, ts[st:i]...)
			}
			// A qualified rule that reaches EOF without a block is a parse error and is dropped
			// by a real parser; it is reported with HasBlock=false so that oracles can see it.
			rules = append(rules, r)
		}
	}
	return rules
}
