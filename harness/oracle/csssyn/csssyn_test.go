package csssyn

import (
	"strings"
	"testing"
)

func kinds(ts []Token) string {
	var out []string
	for _, t := range ts {
		s := t.Kind.String()
		switch t.Kind {
		case Ident, Function, AtKeyword, Hash, String, URL, Delim, Number, Dimension, Percentage:
			s += "(" + t.Value + t.Unit + ")"
		}
		if t.Unterminated {
			s += "!"
		}
		out = append(out, s)
	}
	return strings.Join(out, " ")
}

func TestTokenizer(t *testing.T) {
	for _, c := range []struct{ in, want string }{
		{`a{b:c}`, `ident(a) { ident(b) colon ident(c) }`},
		{`color: red;`, `ident(color) colon whitespace ident(red) semicolon`},
		{`"a\"b"`, `string(a"b)`},
		{`'x`, `string(x)!`},
		{"\"a\nb\"", `bad-string whitespace ident(b) string()!`},
		{`url(x)`, `url(x)`},
		{`url( "x" )`, `function(url) whitespace string(x) whitespace )`},
		{`url(x"y)`, `bad-url`},
		{`url(x y)`, `bad-url`},
		{`url(a\)b)`, `url(a)b)`},
		{`URL(x`, `url(x)!`},
		{`/* c */a`, `comment ident(a)`},
		{`/* open`, `comment!`},
		{`@import "x";`, `at-keyword(import) whitespace string(x) semicolon`},
		{`#fff #1a`, `hash(fff) whitespace hash(1a)`},
		{`10px 50% 1e3 -1 +.5`, `dimension(10px) whitespace percentage(50) whitespace number(1e3) whitespace number(-1) whitespace number(+.5)`},
		{`<!-- -->`, `CDO whitespace CDC`},
		{`a\3b b`, `ident(a;b)`},
		{`\00003bx`, `ident(;x)`},
		{`a\`, `ident(a` + "�" + `)`},
		{`u\72l(x)`, `url(x)`},
		{`a:b(c[d]{e})`, `ident(a) colon function(b) ident(c) [ ident(d) ] { ident(e) } )`},
		{`<`, `delim(<)`},
		{`a!important`, `ident(a) delim(!) ident(important)`},
	} {
		if got := kinds(Tokenize(c.in)); got != c.want {
			t.Errorf("Tokenize(%q)\n got  %s\n want %s", c.in, got, c.want)
		}
	}
}

func TestDeclarations(t *testing.T) {
	for _, c := range []struct {
		in       string
		names    string
		junk     int
		unclosed bool
	}{
		{`a:b;c:d;`, "a,c", 0, false},
		{`a:b;c`, "a", 1, false},
		{`a:b;;c:d`, "a,c", 0, false},
		{`a:(;);c:d`, "a,c", 0, false},
		{`a:b{;}c:d`, "a", 0, false},
		{`a:url("x;y");c:d`, "a,c", 0, false},
		{`a:"x;c:d`, "a", 0, false},
		{`a:(b;c:d`, "a", 0, true},
		{`@x y;a:b`, "a", 1, false},
		{`;a:b`, "a", 0, false},
		{`1a:b;c:d`, "c", 1, false},
		{`a:;`, "a", 0, false},
	} {
		dl := ParseDeclarationList(c.in)
		var names []string
		for _, d := range dl.Decls {
			names = append(names, d.Name)
		}
		if strings.Join(names, ",") != c.names || dl.Junk != c.junk || dl.Unclosed != c.unclosed {
			t.Errorf("ParseDeclarationList(%q) = %v junk=%d unclosed=%v, want %s junk=%d unclosed=%v", c.in, names, dl.Junk, dl.Unclosed, c.names, c.junk, c.unclosed)
		}
	}
}

func TestStylesheet(t *testing.T) {
	for _, c := range []struct {
		in     string
		nrules int
	}{
		{`a{b:c}`, 1},
		{`a{b:c}d{e:f}`, 2},
		{`a{b:{}}`, 1},
		{`a[x="}"]{b:c}`, 1},
		{`a{b:c}}x{y:z}`, 2},
		{`@import "x";a{}`, 2},
		{`-->a{}`, 1},
		{`a{`, 1},
		{`url(x"){}input{y:z}z{"y){b:c}`, 3},
	} {
		rs := ParseStylesheet(c.in)
		if len(rs) != c.nrules {
			t.Errorf("ParseStylesheet(%q) gives %d rules, want %d", c.in, len(rs), c.nrules)
		}
	}
}
