// Package chist holds the history monitors of C05 (sticky analysis failures), C06 (results
// depend only on definitions, name and data), C07 (freeze at first execution, clone
// isolation) and C08 (totality).
package chist

import (
	"encoding/json"
	"fmt"
	"os"
	"regexp"
	"strconv"
	"strings"
	"time"

	"github.com/google/safehtml/template"
	tconv "github.com/google/safehtml/template/uncheckedconversions"

	"verif/core"
	"verif/gen"
	"verif/hist"
	"verif/util"
)

type kase struct {
	History *hist.History `json:"history,omitempty"`
	Racing  *racing       `json:"racing,omitempty"`
}

// racing describes one Parse-against-first-Execute trial (C07).
type racing struct {
	Pad     int    `json:"pad"`      // number of padding actions in the racing Parse text
	DelayUs int    `json:"delay_us"` // how long the executing goroutine waits before it starts
	Data    string `json:"data"`
	Repeat  int    `json:"repeat"`
}

type cfg struct {
	id    string
	gopts func(r *core.Rng, i int) hist.GenOpts
	n     func(c *core.Ctx) int
	// which clauses produce violations for this monitor
	equality, sticky, freeze, total bool
}

var cfgs = []cfg{
	{id: "C05", sticky: true, equality: false,
		gopts: func(r *core.Rng, i int) hist.GenOpts {
			return hist.GenOpts{Set: gen.SetOpts{FailMembers: 1 + r.Intn(2)}, MaxOps: 12, Clones: i%4 == 0, NewOps: i%5 == 0}
		},
		n: func(c *core.Ctx) int { return c.N(40000, 400000) }},
	{id: "C06", equality: true,
		gopts: func(r *core.Rng, i int) hist.GenOpts {
			return hist.GenOpts{Set: gen.SetOpts{FailMembers: r.Intn(2)}, MaxOps: 14}
		},
		n: func(c *core.Ctx) int { return c.N(40000, 400000) }},
	{id: "C07", equality: true, freeze: true,
		gopts: func(r *core.Rng, i int) hist.GenOpts {
			return hist.GenOpts{Set: gen.SetOpts{FailMembers: r.Intn(2)}, MaxOps: 16, Clones: true, ParseAfter: true, ExtraDefs: true, NewOps: i%2 == 0}
		},
		n: func(c *core.Ctx) int { return c.N(40000, 400000) }},
	{id: "C08", total: true,
		gopts: func(r *core.Rng, i int) hist.GenOpts {
			return hist.GenOpts{Set: gen.SetOpts{FailMembers: r.Intn(3), Wild: true}, MaxOps: 18, Clones: true, ParseAfter: true, ExtraDefs: true, WildOps: true}
		},
		n: func(c *core.Ctx) int { return c.N(100000, 1500000) }},
}

var rules = map[string]string{
	"C05": "histories over generated template sets with >=1 member whose contextual analysis fails (branch mismatch, range re-entry, non-text end, disallowed position, unsafe/ambiguous URL prefix, undefined callee, predefined escaper misuse, uncomputable recursion, bad HTML), members calling them, unrelated members and members that fail at run time after partial output; ops: Execute/ExecuteTemplate/ExecuteToHTML/ExecuteTemplateToHTML, Lookup, Templates, Clone. Oracle: whenever the same call on a fresh replayed set reports an analysis error, or the template reported one before, the call must return an error, write 0 bytes and not run the body (tick probe); *ToHTML must return the zero HTML with every error. non-trivial = history with >=1 analysis error observed; distinct by history",
	"C06": "histories of Execute*/ExecuteTemplate* calls (with immediate repetitions) over the members of generated sets that share helper templates between callers in different contexts. Oracle: bytes written and error-or-not of every call equal those of the same call on a fresh set obtained by replaying only the definition calls. non-trivial = history with >=2 successful executions of different members; distinct by history",
	"C07": "histories mixing New, Parse, Clone (up to 3 generations), redefinitions in clones and originals, Lookup, Templates and Execute*. Oracle: after the first Execute* on a set every Parse on any of its handles returns an error; Clone of an executed template fails; every execution equals the replay reference built from the definition calls of its own lineage only (so leakage between original and clone, or a late Parse that took effect, shows as a difference). non-trivial = history with a clone or a late parse; distinct by history",
	"C08": "histories with the widest template grammar (break/continue, blocks, variables, comments, trims, recursion, odd and malformed HTML, JS template literals, misuse of predefined escapers, redefinitions) and call sequences that keep going after errors (Lookup of odd names, New over existing names, CSPCompatible, Clone, late Parse). Oracle: every call is wrapped in recover: a panic is a violation; a worker death (fatal error) is reported with the journalled history; an in-process watchdog flags calls that do not return. non-trivial = history with >=1 error returned; distinct by history",
}

func init() {
	for i := range cfgs {
		cf := cfgs[i]
		core.Register(&core.Monitor{
			ID:          cf.id,
			Level:       "exploration",
			Rule:        rules[cf.id],
			Assumptions: []string{"reference: the engine itself on fresh objects, reached by replaying only the non-executing calls that succeeded (isolates the effect of history)", "generated template programs terminate (acyclic calls or data-guarded linear recursion)"},
			Run:         func(c *core.Ctx) { run(c, cf) },
			Replay:      func(c *core.Ctx, raw json.RawMessage) error { return replay(c, cf, raw) },
			MinDistinct: func(string) int64 { return 500 },
		})
	}
}

func replay(c *core.Ctx, cf cfg, raw json.RawMessage) error {
	var k kase
	if err := json.Unmarshal(raw, &k); err != nil {
		return err
	}
	if k.Racing != nil {
		n := k.Racing.Repeat
		if n < 1 {
			n = 1
		}
		for i := 0; i < n; i++ {
			if !raceOnce(c, *k.Racing, true) {
				break
			}
		}
		return nil
	}
	if k.History == nil {
		return fmt.Errorf("no history in case")
	}
	judge(c, cf, k.History, true)
	return nil
}

func describe(op hist.Op) string {
	switch op.Kind {
	case "parsefiles", "parseglob", "parsefs":
		return fmt.Sprintf("v%d.%s(file %q containing %q)", op.H, map[string]string{"parsefiles": "ParseFilesFromTrustedSources", "parseglob": "ParseGlobFromTrustedSource", "parsefs": "ParseFS"}[op.Kind], op.Name, op.Text)
	case "parse":
		t := op.Text
		if len(t) > 200 {
			t = t[:200] + "..."
		}
		return fmt.Sprintf("v%d.Parse(%q)", op.H, t)
	case "exect", "execthtml":
		return fmt.Sprintf("v%d.%s(%q, data%d)", op.H, map[string]string{"exect": "ExecuteTemplate", "execthtml": "ExecuteTemplateToHTML"}[op.Kind], op.Name, op.Data)
	case "exec", "exechtml":
		return fmt.Sprintf("v%d.%s(data%d)", op.H, map[string]string{"exec": "Execute", "exechtml": "ExecuteToHTML"}[op.Kind], op.Data)
	case "lookup", "tnew":
		return fmt.Sprintf("v%d = v%d.%s(%q)", op.Dst, op.H, map[string]string{"lookup": "Lookup", "tnew": "New"}[op.Kind], op.Name)
	case "clone":
		return fmt.Sprintf("v%d = v%d.Clone()", op.Dst, op.H)
	case "new":
		return fmt.Sprintf("v%d = New(%q)", op.Dst, op.Name)
	}
	return fmt.Sprintf("v%d.%s()", op.H, op.Kind)
}

var bareAmpCall = regexp.MustCompile(`&\{\{template`)

func bareAmpBeforeCall(h *hist.History) bool {
	for _, op := range h.Ops {
		if bareAmpCall.MatchString(op.Text) {
			return true
		}
	}
	return false
}

// judge runs one history and applies the clauses of the monitor.
func judge(c *core.Ctx, cf cfg, h *hist.History, verbose bool) {
	k := kase{History: h}
	e := hist.NewExec(h)
	defer e.Close()
	model := hist.NewModel(h.NVar)
	real := make([]hist.Result, len(h.Ops))
	executed := map[*template.Template]bool{}
	failed := map[*template.Template]bool{} // templates that reported an analysis error
	sawAnalysisErr, okExecs, hasClone, hasLate := false, 0, false, false
	clonesSoFar := 0
	redefined := false // a later definition call may have replaced a must-fail member
	nInitial := 0
	for _, op := range h.Ops {
		if op.Kind == "new" || op.Kind == "parse" || op.Kind == "tnew" && (op.Name == "root" || op.Name == "emptyT") {
			nInitial++
		} else {
			break
		}
	}
	skip := make([]bool, len(h.Ops))
	for i, op := range h.Ops {
		c.Eval(1)
		frozenBefore := model.Frozen(op.H)
		orphanExec := op.IsExec() && model.Orphan(op.H)
		if op.Kind == "tnew" && (frozenBefore || model.Orphan(op.H)) {
			skip[i] = true
			c.Count("new_after_execute", 1)
		}
		var target *template.Template
		if op.IsExec() && op.H >= 0 && op.H < len(e.Vars) && e.Vars[op.H] != nil {
			target = e.Vars[op.H]
			if op.Kind == "exect" || op.Kind == "execthtml" {
				target = target.Lookup(op.Name)
			}
		}
		var cloneSrc *template.Template
		if op.Kind == "clone" && op.H < len(e.Vars) {
			cloneSrc = e.Vars[op.H]
		}
		res := e.Do(op)
		real[i] = res
		if verbose {
			fmt.Printf("  %2d %-60s -> ran=%v err=%v out=%q ticks=%d panic=%q\n", i, describe(op), res.Ran, res.Err, res.Out, res.Ticks, res.Panic)
		}
		if !res.Ran {
			continue
		}
		if res.Panic != "" {
			c.Count("panics", 1)
			if cf.total {
				c.Violation(k, "step %d %s panicked: %s", i, describe(op), firstLine(res.Panic))
				return
			}
			c.Count("panics_skipped", 1)
			return // the state after a panic is undefined; other monitors do not judge it
		}
		if i >= nInitial && (op.IsParse() || op.Kind == "clone" || op.Kind == "tnew") {
			redefined = true
		}
		switch {
		case op.IsParse():
			if frozenBefore {
				hasLate = true
				c.Count("parse_after_execute", 1)
				if !res.IsErr && cf.freeze {
					c.Violation(k, "step %d %s succeeded although a template of the set had been executed before", i, describe(op))
					return
				}
			}
		case op.Kind == "clone":
			hasClone = true
			if res.Ran && !res.IsErr && res.Panic == "" {
				clonesSoFar++
			}
			if cloneSrc != nil && executed[cloneSrc] {
				c.Count("clone_after_execute", 1)
				if !res.IsErr && cf.freeze {
					c.Violation(k, "step %d %s succeeded although that template had been executed before", i, describe(op))
					return
				}
			}
		case op.IsExec():
			c.Hist("exec_result", errClass(res))
			if res.HTMLNonZero && cf.sticky {
				c.Violation(k, "step %d %s returned an error together with a non-zero HTML %q", i, describe(op), res.Out)
				return
			}
			if (op.Kind == "exect" || op.Kind == "execthtml") && !redefined {
				for _, mf := range h.MustFail {
					if mf == op.Name {
						c.Count("executions_of_members_that_must_fail", 1)
						if !res.IsErr || res.Out != "" || res.Ticks != 0 {
							c.Count("must_fail_member_did_not_fail", 1)
							if cf.sticky {
								c.Violation(k, "step %d %s: the body of %q contains a construct that cannot be contextualized, but the call gave (%q, err=%q, %d bodies run)", i, describe(op), op.Name, res.Out, res.Err, res.Ticks)
								return
							}
						}
					}
				}
			}
			if res.AnalysisErr {
				sawAnalysisErr = true
				c.Hist("analysis_error_codes", fmt.Sprint(res.ErrCode))
				if (res.Out != "" || res.Ticks != 0) && cf.sticky {
					c.Violation(k, "step %d %s reported the analysis error %q but wrote %d bytes and ran %d template bodies", i, describe(op), res.Err, len(res.Out), res.Ticks)
					return
				}
			}
			if target != nil && failed[target] && cf.sticky && (!res.IsErr || res.Out != "" || res.Ticks != 0) {
				c.Violation(k, "step %d %s: the template reported an analysis error before, now err=%q, %d bytes written, %d bodies run", i, describe(op), res.Err, len(res.Out), res.Ticks)
				return
			}
			if !res.IsErr {
				okExecs++
			}
			if orphanExec {
				// a template made by New after the first execution is not a member of the
				// set; what executing the handle itself gives is not specified
				c.Count("executions_of_handles_made_by_new_after_execute", 1)
			} else if cf.equality || cf.sticky {
				ref := hist.Reference(h, real, i, skip)
				if ref.Panic != "" {
					c.Count("reference_panics", 1)
				} else {
					c.Count("compared_with_reference", 1)
					if cf.equality && (ref.Out != res.Out || ref.IsErr != res.IsErr) && !c.Strict && callEachOther(h) {
						// known finding K100 (C06): for templates that call each other, whether the
						// analysis finds a consistent output context depends on the member it enters by
						c.Count("excluded_K100_templates_that_call_each_other", 1)
					} else if cf.equality && (ref.Out != res.Out || ref.IsErr != res.IsErr) && !c.Strict && bareAmpBeforeCall(h) {
						// known finding K49 (C06) / K05r (C14): a bare "&" directly before a template
						// call inside an attribute value is not part of the name of the callee's copy
						c.Count("excluded_K49_bare_ampersand_before_call", 1)
					} else if cf.equality && (ref.Out != res.Out || ref.IsErr != res.IsErr) {
						c.Violation(k, "step %d %s gives (%q, err=%q); the same call on a fresh set with the same definitions gives (%q, err=%q)", i, describe(op), res.Out, res.Err, ref.Out, ref.Err)
						return
					}
					if cf.id == "C07" && clonesSoFar > 0 {
						// clause "Clone yields a duplicate": the clone operation replaced by a rebuild
						ref2 := hist.ReferenceRebuild(h, real, i, skip)
						if ref2.Panic == "" {
							c.Count("compared_with_rebuilt_clone_reference", 1)
							if ref2.Out != res.Out || ref2.IsErr != res.IsErr {
								c.Violation(k, "step %d %s gives (%q, err=%q); with every Clone replaced by a set rebuilt from the definitions made before it, the call gives (%q, err=%q)", i, describe(op), res.Out, res.Err, ref2.Out, ref2.Err)
								return
							}
						}
					}
					if cf.id == "C07" {
						// a Parse of a template nothing mentions, made on the same handle just before the call
						ref3 := hist.ReferencePadded(h, real, i, skip)
						if ref3.Panic == "" {
							c.Count("compared_with_padded_reference", 1)
							if ref3.Out != res.Out || ref3.IsErr != res.IsErr {
								c.Violation(k, "step %d %s gives (%q, err=%q); on a fresh set with the same definitions followed by %s on that handle the call gives (%q, err=%q)", i, describe(op), res.Out, res.Err, hist.PadText, ref3.Out, ref3.Err)
								return
							}
						}
						if op.Kind == "exec" || op.Kind == "exechtml" {
							ref4 := hist.ReferenceByName(h, real, i, skip)
							if ref4.Panic == "" {
								c.Count("compared_execute_with_executetemplate_of_own_name", 1)
								// (ExecuteToHTML drops the partial output of a failing run, the writer of the reference keeps it)
								if ref4.IsErr != res.IsErr || ref4.Out != res.Out && !(op.Kind == "exechtml" && res.IsErr) {
									c.Violation(k, "step %d %s gives (%q, err=%q); ExecuteTemplate with the handle's own name, on a fresh set with the same definitions, gives (%q, err=%q)", i, describe(op), res.Out, res.Err, ref4.Out, ref4.Err)
									return
								}
							}
						}
					}
					if cf.sticky && ref.AnalysisErr && (!res.IsErr || res.Out != "" || res.Ticks != 0) {
						c.Violation(k, "step %d %s: on a fresh set the call reports the analysis error %q, in this history it gives (%q, err=%q, %d bodies run)", i, describe(op), ref.Err, res.Out, res.Err, res.Ticks)
						return
					}
				}
			}
			if target != nil {
				if res.AnalysisErr && res.ErrCode != 0 {
					failed[target] = true
				}
				if !res.IsErr || res.AnalysisErr && res.ErrCode != 0 {
					executed[target] = true
				}
				// "executed (successfully or not)": an Execute/ExecuteToHTML on the handle itself
				// counts whatever it returned, also "incomplete or empty template" of a handle that
				// New declared without a body (seeded C07-m9, C07-m10)
				if (op.Kind == "exec" || op.Kind == "exechtml") && res.Panic == "" {
					executed[target] = true
				}
			}
		}
		model.Apply(op, res)
	}
	nontrivial := false
	switch cf.id {
	case "C05":
		nontrivial = sawAnalysisErr
	case "C06":
		nontrivial = okExecs >= 2
	case "C07":
		nontrivial = hasClone || hasLate
	case "C08":
		for _, r := range real {
			if r.IsErr {
				nontrivial = true
			}
		}
	}
	if nontrivial {
		c.DistinctS(util.JSON(h.Ops))
	}
}

func errClass(r hist.Result) string {
	switch {
	case !r.IsErr:
		return "ok"
	case r.AnalysisErr:
		return "analysis-error"
	}
	if strings.Contains(r.Err, "error calling") {
		return "runtime-sanitizer-error"
	}
	return "other-runtime-error"
}

func firstLine(s string) string {
	if i := strings.IndexByte(s, '\n'); i >= 0 {
		s = s[:i]
	}
	if len(s) > 300 {
		s = s[:300]
	}
	return s
}

func tt(s string) template.TrustedTemplate {
	return tconv.TrustedTemplateFromStringKnownToSatisfyTypeContract(s)
}

// raceOnce starts a Parse that redefines a helper and, on another goroutine, the first
// Execute of the set. Whichever comes first, the outcome has to be one that a sequential
// order of the two calls explains: either the Parse succeeded and both executions render the
// new definition (analysed), or it was refused and both render the old one. It reports
// whether the trial passed. The delay only shifts the interleaving; the verdict does not
// depend on time.
func raceOnce(c *core.Ctx, rc racing, verbose bool) bool {
	const first = `<b>{{template "x" .}}</b>{{define "x"}}OLD{{end}}`
	second := `{{define "x"}}{{.}}{{end}}{{define "pad"}}` + strings.Repeat(`<p>{{.}}</p>`, rc.Pad) + `{{end}}`
	build := func(texts ...string) (*template.Template, error) {
		t := template.New("root")
		for _, x := range texts {
			if _, err := t.ParseFromTrustedTemplate(tt(x)); err != nil {
				return nil, err
			}
		}
		return t, nil
	}
	render := func(t *template.Template) string {
		var b strings.Builder
		if err := t.Execute(&b, rc.Data); err != nil {
			return "error: " + err.Error()
		}
		return b.String()
	}
	root, err := build(first)
	if err != nil {
		c.Count("racing_setup_failed", 1)
		return true
	}
	perr := make(chan error, 1)
	go func() {
		_, err := root.ParseFromTrustedTemplate(tt(second))
		perr <- err
	}()
	if rc.DelayUs > 0 {
		time.Sleep(time.Duration(rc.DelayUs) * time.Microsecond)
	}
	out1 := render(root)
	parseErr := <-perr
	out2 := render(root)
	_, lateErr := root.ParseFromTrustedTemplate(tt(`{{define "x"}}LATE{{end}}`))
	out3 := render(root)
	var ref *template.Template
	if parseErr == nil {
		c.Count("racing_parse_came_first", 1)
		ref, _ = build(first, second)
	} else {
		c.Count("racing_execute_came_first", 1)
		ref, _ = build(first)
	}
	want := render(ref)
	if verbose {
		fmt.Printf("  racing Parse: err=%v; Execute during: %q, after: %q, after a late Parse (err=%v): %q; sequential explanation: %q\n", parseErr, out1, out2, lateErr, out3, want)
	}
	c.Eval(1)
	rc.Repeat = 200
	switch {
	case out1 != want || out2 != want || out3 != want:
		c.Violation(kase{Racing: &rc}, "a Parse racing with the first Execute returned err=%v; the executions gave %q, %q and %q, the set with %s gives %q", parseErr, out1, out2, out3, map[bool]string{true: "both definitions", false: "the first definition only"}[parseErr == nil], want)
		return false
	case lateErr == nil:
		c.Violation(kase{Racing: &rc}, "a Parse after the executions succeeded")
		return false
	}
	return true
}

var quotedName = regexp.MustCompile(`"(?:[^"\\]|\\.)*"`)

// derivedCollision defines, in a generated set, a template that has the name the engine gave
// to one of its context-specific copies (the names are read from DefinedTemplates after a
// first run of the same set), executes it first and the members afterwards.
func derivedCollision(c *core.Ctx, cf cfg, r *core.Rng) {
	set := gen.GenSet(r, gen.SetOpts{Members: 2 + r.Intn(3)})
	data := hist.GenData(r, 2)
	start := func() *hist.History {
		h := &hist.History{Data: data, NVar: 2}
		h.Ops = append(h.Ops, hist.Op{Kind: "new", H: -1, Dst: 0, Name: "root"})
		for _, t := range set.Texts {
			h.Ops = append(h.Ops, hist.Op{Kind: "parse", H: 0, Dst: 0, Text: t})
		}
		return h
	}
	probe := start()
	for _, m := range set.Members {
		probe.Ops = append(probe.Ops, hist.Op{Kind: "exect", H: 0, Dst: -1, Name: m, Data: 0})
	}
	probe.Ops = append(probe.Ops, hist.Op{Kind: "defined", H: 0, Dst: -1})
	res := hist.Run(probe)
	var derived []string
	for _, q := range quotedName.FindAllString(res[len(res)-1].Info, -1) {
		if n, err := strconv.Unquote(q); err == nil && strings.Contains(n, "$htmltemplate_") && !strings.ContainsAny(n, "\"{}`") {
			derived = append(derived, n)
		}
	}
	c.Count("derived_names_seen", len(derived))
	if len(derived) == 0 {
		return
	}
	for n := 0; n < 2; n++ {
		dn := derived[r.Intn(len(derived))]
		h := start()
		body := r.Pick([]string{"{{.}}", "{{.}}<b>'x'</b>", `{{printf "%v" .}}`, "user text"})
		if n == 1 {
			// ... or a member that calls the copy by its name, executed after the member that
			// makes the engine create the copy
			h.Ops = append(h.Ops, hist.Op{Kind: "parse", H: 0, Dst: 0, Text: `{{define "zcaller"}}<p>{{template "` + dn + `" .}}</p>{{end}}`})
			for _, m := range set.Members {
				h.Ops = append(h.Ops, hist.Op{Kind: "exect", H: 0, Dst: -1, Name: m, Data: r.Intn(len(data))})
			}
			h.Ops = append(h.Ops, hist.Op{Kind: "exect", H: 0, Dst: -1, Name: "zcaller", Data: r.Intn(len(data))})
			c.Count("histories_calling_a_derived_copy_by_name", 1)
			c.Journal(util.JSON(kase{History: h}))
			judge(c, cf, h, false)
			continue
		}
		h.Ops = append(h.Ops, hist.Op{Kind: "parse", H: 0, Dst: 0, Text: `{{define "` + dn + `"}}` + body + `{{end}}`})
		if r.Intn(4) > 0 {
			h.Ops = append(h.Ops, hist.Op{Kind: "exect", H: 0, Dst: -1, Name: dn, Data: r.Intn(len(data))})
		}
		for i := 0; i < 2+r.Intn(3); i++ {
			h.Ops = append(h.Ops, hist.Op{Kind: "exect", H: 0, Dst: -1, Name: r.Pick(append([]string{dn}, set.Members...)), Data: r.Intn(len(data))})
		}
		c.Count("histories_with_a_template_named_like_a_derived_copy", 1)
		c.Journal(util.JSON(kase{History: h}))
		judge(c, cf, h, false)
	}
}

// permutations drives, for one generated set with at most four members, every order of
// first executions of its members (each followed by a repetition of the first one).
func permutations(c *core.Ctx, cf cfg, r *core.Rng) {
	set := gen.GenSet(r, gen.SetOpts{Members: 2 + r.Intn(3), FailMembers: r.Intn(2)})
	data := hist.GenData(r, 2)
	var perm func(rest, acc []string)
	perm = func(rest, acc []string) {
		if len(rest) == 0 {
			h := &hist.History{Data: data, NVar: 2}
			h.Ops = append(h.Ops, hist.Op{Kind: "new", H: -1, Dst: 0, Name: "root"})
			for _, t := range set.Texts {
				h.Ops = append(h.Ops, hist.Op{Kind: "parse", H: 0, Dst: 0, Text: t})
			}
			for i, m := range acc {
				h.Ops = append(h.Ops, hist.Op{Kind: "exect", H: 0, Dst: -1, Name: m, Data: i % 2})
			}
			h.Ops = append(h.Ops, hist.Op{Kind: "exect", H: 0, Dst: -1, Name: acc[0], Data: 0})
			c.Journal(util.JSON(kase{History: h}))
			judge(c, cf, h, false)
			c.Count("first_execution_orders_driven", 1)
			return
		}
		for i := range rest {
			nr := append(append([]string{}, rest[:i]...), rest[i+1:]...)
			perm(nr, append(append([]string{}, acc...), rest[i]))
		}
	}
	perm(set.Members, nil)
	c.Count("sets_with_all_first_execution_orders", 1)
}

// deepHistory builds a history that executes a template nested or chained some tens of levels.
func deepHistory(k int, data []gen.DataSpec) *hist.History {
	depth := 26 + 2*(k%3)
	var text string
	cyc := false
	switch k % 8 {
	case 4:
		// deeper than any goroutine stack should be asked to follow
		text = strings.Repeat("{{if $.C0}}", 300000) + "x" + strings.Repeat("{{end}}", 300000)
	case 5:
		// much text inside nested loops
		text = strings.Repeat("{{range $.NOPE}}", 18) + strings.Repeat("<b>text</b> ", 1400) + strings.Repeat("{{end}}", 18)
	case 6:
		// a long chain of templates that call each other
		var b strings.Builder
		for i := 0; i < 2000; i++ {
			fmt.Fprintf(&b, `{{define "c%d"}}a{{template "c%d" .}}{{end}}`, i, i+1)
		}
		b.WriteString(`{{define "c2000"}}z{{end}}{{template "c0" .}}`)
		text = b.String()
	case 7:
		// data that points to itself, in several contexts
		text = `<p>{{.}}</p><p title="{{.}}">x</p><a href="/x?q={{.}}">y</a><a href="{{.}}">z</a>`
		cyc = true
	case 3:
		// nested loops around a call of an already analysed helper
		depth = 40
		text = `{{define "leafT"}}<i>{{.}}</i>{{end}}{{template "leafT" $.S0}}` + strings.Repeat("{{range $.L0}}", depth) + `x{{template "leafT" .E0}}` + strings.Repeat("{{end}}", depth)
	case 0:
		text = strings.Repeat("{{range $.L0}}", depth) + "x{{.E0}}" + strings.Repeat("{{end}}", depth)
	case 1:
		var b strings.Builder
		for i := 0; i < depth; i++ {
			fmt.Fprintf(&b, `{{define "t%d"}}{{template "t%d" $}}{{if $.C0}}{{template "t%d" $.N}}{{else}}<b>{{end}}{{end}}`, i, i+1, i)
		}
		fmt.Fprintf(&b, `{{define "t%d"}}x{{end}}{{template "t0" $}}`, depth)
		text = b.String()
	default:
		text = `<p title="` + strings.Repeat("{{range $.L1}}{{if $.C1}}", depth/2) + "{{$.S0}}" + strings.Repeat("{{end}}{{end}}", depth/2) + `">x</p>`
	}
	// lists of one element: the execution itself must stay linear in the depth
	d0 := data[0]
	d0.L = append([][][2]string(nil), d0.L...)
	for i := range d0.L {
		if len(d0.L[i]) > 1 {
			d0.L[i] = d0.L[i][:1]
		}
	}
	h := &hist.History{Data: []gen.DataSpec{d0}, NVar: 2}
	h.Ops = []hist.Op{{Kind: "new", H: -1, Dst: 0, Name: "root"}, {Kind: "parse", H: 0, Dst: 0, Text: text}, {Kind: "exec", H: 0, Dst: -1, Data: 0}, {Kind: "exec", H: 0, Dst: -1, Data: 0}}
	if cyc {
		h.Ops[2].Kind, h.Ops[3].Kind = "execcyc", "execcyc"
	}
	return h
}

// sameTextInAnotherAttribute returns histories in which static text that is a valid prefix of a
// plain URL attribute but not of a TrustedResourceURL attribute is analysed in the former
// first; the member with the latter must fail whatever was analysed before, in this set or
// any other set of the process.
func sameTextInAnotherAttribute(data []gen.DataSpec) []*hist.History {
	var out []*hist.History
	pairs := [][2]string{
		{`<form action="%s{{$.S0}}"></form>`, `<script src="%s{{$.S0}}"></script>`},
		{`<button formaction="%s{{$.S0}}">b</button>`, `<link rel="stylesheet" href="%s{{$.S0}}">`},
		{`<input formaction='%s{{$.S0}}'>`, `<iframe src='%s{{$.S0}}'></iframe>`},
		{`<form action="%s{{template "d" .}}"></form>`, `<script src="%s{{template "d" .}}"></script>`},
	}
	for _, pre := range []string{"http://example.com/search?q=", "ftp://h/p/", "p/q/", "x?y=", "HTTP://EXAMPLE.COM/a/", "mailto:a@b?subject="} {
		for _, pr := range pairs {
			h := &hist.History{Data: data[:1], NVar: 2, MustFail: []string{"mf"}}
			text := `{{define "d"}}{{$.S0}}{{end}}{{define "plain"}}` + fmt.Sprintf(pr[0], pre) + `{{end}}{{define "mf"}}` + fmt.Sprintf(pr[1], pre) + `{{end}}`
			h.Ops = []hist.Op{{Kind: "new", H: -1, Dst: 0, Name: "root"}, {Kind: "parse", H: 0, Dst: 0, Text: text},
				{Kind: "exect", H: 0, Dst: -1, Name: "plain", Data: 0}, {Kind: "exect", H: 0, Dst: -1, Name: "mf", Data: 0}, {Kind: "exect", H: 0, Dst: -1, Name: "plain", Data: 0}, {Kind: "execthtml", H: 0, Dst: -1, Name: "mf", Data: 0}}
			out = append(out, h)
		}
	}
	return out
}

// mutualRecursion builds two templates that call each other (the recursion is guarded by the
// data) out of pieces that change the context, and executes them in both orders.
func mutualRecursion(c *core.Ctx, cf cfg, r *core.Rng) {
	pieces := []string{"", "", "x", "<b", "<", ` title="`, `"`, ">", "<object>", "<p>", "</p>", "{{$.S0}}", "<b>", `<a href="`, "/p?q=", "<i title='", "'>"}
	pk := func() string { return pieces[r.Intn(len(pieces))] }
	t0 := pk() + `{{template "t1" .}}` + pk()
	if r.Intn(3) == 0 {
		t0 = pk() + `{{if $.C1}}` + pk() + `{{else}}{{template "t1" .}}` + pk() + `{{end}}` + pk()
	}
	t1 := pk() + `{{if $.C0}}` + pk() + `{{else}}` + pk() + `{{with $.N}}{{template "t0" .}}{{end}}` + pk() + `{{end}}` + pk()
	text := `{{define "t0"}}` + t0 + `{{end}}{{define "t1"}}` + t1 + `{{end}}{{define "page"}}<p>{{template "t0" .}}</p>{{end}}`
	data := hist.GenData(r, 1)
	for _, order := range [][]string{{"t0", "t1", "page"}, {"t1", "t0", "page"}, {"page", "t1", "t0"}} {
		h := &hist.History{Data: data, NVar: 2}
		h.Ops = []hist.Op{{Kind: "new", H: -1, Dst: 0, Name: "root"}, {Kind: "parse", H: 0, Dst: 0, Text: text}}
		for _, m := range order {
			h.Ops = append(h.Ops, hist.Op{Kind: "exect", H: 0, Dst: -1, Name: m, Data: 0})
		}
		c.Count("histories_over_two_templates_that_call_each_other", 1)
		c.Journal(util.JSON(kase{History: h}))
		judge(c, cf, h, false)
	}
}

// callEachOther reports whether the history is one of the mutualRecursion scenario: t0 and t1
// call each other.
func callEachOther(h *hist.History) bool {
	for _, op := range h.Ops {
		if op.Kind == "parse" && strings.Contains(op.Text, `{{define "t1"}}`) && strings.Contains(op.Text, `{{template "t0" .}}`) && strings.Contains(op.Text, `{{template "t1" .}}`) {
			return true
		}
	}
	return false
}

// budgetHistories returns histories over a set whose members are analysed at a cost near the
// analysis budget of the engine: whether a member is within the budget, and whether small
// members stay analysable, must not depend on what was executed before. (Ranges over a
// missing key: the analysis is deep, the execution does nothing.)
func budgetHistories(data []gen.DataSpec) []*hist.History {
	nest := func(depth int, leaf string) string {
		return strings.Repeat("{{range $.NOPE}}", depth) + leaf + strings.Repeat("{{end}}", depth)
	}
	text := `{{define "b1"}}` + nest(18, "x") + `{{end}}{{define "b2"}}` + nest(18, "y") + `{{end}}` +
		`{{define "a"}}A{{template "b1" .}}{{template "b2" .}}{{end}}{{define "small"}}<p>{{$.S0}}</p>{{end}}`
	for i := 1; i <= 5; i++ {
		text += fmt.Sprintf(`{{define "m%d"}}%d`, i, i) + nest(17, fmt.Sprint(i)) + `{{end}}`
	}
	// ... and at a depth near the bound: a callee of 9997 levels, called four levels down
	text += `{{define "deep"}}` + strings.Repeat("{{if $.NOPE}}", 9997) + "x{{$.S0}}" + strings.Repeat("{{end}}", 9997) + `{{end}}` +
		`{{define "caller"}}<b>{{if $.C0}}{{if $.C0}}{{if $.C0}}{{if $.C0}}{{template "deep" .}}{{end}}{{end}}{{end}}{{end}}</b>{{end}}`
	var out []*hist.History
	for _, order := range [][]string{{"a", "small"}, {"b1", "b2", "a", "a", "small"}, {"b1", "a", "b2"}, {"m1", "m2", "m3", "m4", "m5", "small", "a"}, {"a", "b1", "m1", "m2", "m3", "small"}, {"deep", "caller", "small"}, {"caller", "deep", "caller"}} {
		h := &hist.History{Data: data[:1], NVar: 2}
		h.Ops = []hist.Op{{Kind: "new", H: -1, Dst: 0, Name: "root"}, {Kind: "parse", H: 0, Dst: 0, Text: text}}
		for _, m := range order {
			h.Ops = append(h.Ops, hist.Op{Kind: "exect", H: 0, Dst: -1, Name: m, Data: 0})
		}
		out = append(out, h)
	}
	return out
}

func run(c *core.Ctx, cf cfg) {
	r := c.Rng("histories")
	n := cf.n(c) / c.NShards
	if cf.id == "C06" {
		rp := c.Rng("permutations")
		for i := 0; i < c.N(1500, 30000)/c.NShards; i++ {
			permutations(c, cf, rp)
		}
		for k, h := range budgetHistories(hist.GenData(c.Rng("budget"), 1)) {
			if c.Mine(k) {
				c.Count("histories_near_the_analysis_budget", 1)
				c.Journal(util.JSON(kase{History: h}))
				judge(c, cf, h, false)
			}
		}
		rm := c.Rng("mutual-recursion")
		for i := 0; i < c.N(6000, 120000)/c.NShards; i++ {
			mutualRecursion(c, cf, rm)
		}
		rd := c.Rng("derived-names")
		for i := 0; i < c.N(1500, 30000)/c.NShards; i++ {
			derivedCollision(c, cf, rd)
		}
	}
	if cf.id == "C07" {
		// a Parse racing with the first execution (freeze clause under concurrency)
		rr := c.Rng("racing-parse")
		for i := 0; i < c.N(400, 6000)/c.NShards; i++ {
			rc := racing{Pad: []int{0, 50, 1000, 20000}[rr.Intn(4)], DelayUs: []int{0, 0, 20, 200, 2000}[rr.Intn(5)], Data: "<script>alert(1)</script>"}
			c.Journal(util.JSON(kase{Racing: &rc}))
			raceOnce(c, rc, false)
		}
	}
	if cf.id == "C05" {
		for k, h := range sameTextInAnotherAttribute(hist.GenData(c.Rng("same-text"), 1)) {
			if c.Mine(k) {
				c.Count("histories_with_the_same_static_text_in_a_plain_url_attribute_first", 1)
				c.Journal(util.JSON(kase{History: h}))
				judge(c, cf, h, false)
			}
		}
	}
	deep := 0
	if cf.total {
		// deeply nested and chained templates: the analysis treats loop bodies and recursive
		// templates twice, which may not take 2^depth steps (shards share the shapes)
		deep = 16
	}
	for i := 0; i < n+deep; i++ {
		h, set := hist.Gen(r, cf.gopts(r, i))
		if i >= n {
			if k := i - n; c.Mine(k) {
				h = deepHistory(k, h.Data)
				set.Modes = nil
			} else {
				continue
			}
		}
		for _, m := range set.Modes {
			c.Hist("failure_modes_generated", m)
		}
		c.Journal(util.JSON(kase{History: h}))
		t0 := time.Now()
		done := make(chan struct{})
		if cf.total {
			// watchdog: a call that does not return within 60 s of wall time ends the worker; the
			// journalled history is then re-examined by the orchestrator (C08 only)
			go func() {
				select {
				case <-done:
				case <-time.After(60 * time.Second):
					fmt.Fprintf(os.Stderr, "WATCHDOG: history did not finish within 60s\n")
					os.Exit(86)
				}
			}()
		}
		judge(c, cf, h, false)
		close(done)
		if d := time.Since(t0); d > 300*time.Millisecond {
			c.Count("slow_histories_over_300ms", 1)
			if c.WantSample() {
				c.Sample(map[string]interface{}{"slow_ms": d.Milliseconds(), "history": h})
			}
		}
		if i < 1 {
			c.Sample(kase{History: h})
		}
	}
}
