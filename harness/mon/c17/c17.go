// Package c17 monitors ScriptFromDataAndConstant (property C17).
package c17

import (
	"bytes"
	"encoding/json"
	"errors"
	"fmt"
	"math"
	"reflect"
	"strings"

	"github.com/google/safehtml"

	"verif/core"
	"verif/gen"
	"verif/util"
)

// The data value of a case is described by a small spec so that it can be replayed.
type spec struct {
	Kind string  `json:"k"`           // str bytes int float bool nil list map struct ptr marsh textm raw chan func nan cycle mapkeytm iface
	S    string  `json:"s,omitempty"` // quoted payload
	N    float64 `json:"n,omitempty"`
	L    []spec  `json:"l,omitempty"`
	Keys []string `json:"keys,omitempty"`
}

type kase struct {
	Name   string `json:"name_quoted"`
	Script string `json:"script_quoted"`
	Data   spec   `json:"data"`
	// Prev, if set, is a call made (and recovered from) immediately before the judged call:
	// the result of a call must not depend on what earlier calls did, also when they ended in
	// an error or in a panic raised by a Marshaler of the caller.
	Prev *kase `json:"prev,omitempty"`
}

type panicMarsh struct{}

func (panicMarsh) MarshalJSON() ([]byte, error) { panic("marshaler of the caller panics") }

type panicTextm struct{}

func (panicTextm) MarshalText() ([]byte, error) { panic("text marshaler of the caller panics") }

type marsh struct{ s string }

func (m marsh) MarshalJSON() ([]byte, error) {
	// a Marshaler must return valid JSON; hostile text goes inside a JSON string with
	// raw (not \u-escaped) special characters
	var b bytes.Buffer
	e := json.NewEncoder(&b)
	e.SetEscapeHTML(false)
	e.Encode(m.s)
	return bytes.TrimSpace(b.Bytes()), nil
}

type badMarsh struct{ s string }

func (m badMarsh) MarshalJSON() ([]byte, error) { return []byte(m.s), nil } // possibly invalid JSON

type errMarsh struct{}

func (errMarsh) MarshalJSON() ([]byte, error) { return nil, errors.New("no") }

type textm struct{ s string }

func (t textm) MarshalText() ([]byte, error) { return []byte(t.s), nil }

type keytm struct{ s string }

func (t keytm) MarshalText() ([]byte, error) { return []byte(t.s), nil }

type rec struct {
	A interface{} `json:"a"`
	B interface{} `json:"<b>"`
	C interface{} `json:"c,omitempty"`
	d int
}

type cyc struct{ Next *cyc }

func build(s spec) interface{} {
	switch s.Kind {
	case "str":
		return util.Unq(s.S)
	case "bytes":
		return []byte(util.Unq(s.S))
	case "int":
		return int64(s.N)
	case "float":
		return s.N
	case "bool":
		return s.N != 0
	case "nil":
		return nil
	case "list":
		out := make([]interface{}, len(s.L))
		for i, e := range s.L {
			out[i] = build(e)
		}
		return out
	case "map":
		out := map[string]interface{}{}
		for i, e := range s.L {
			out[util.Unq(s.Keys[i])] = build(e)
		}
		return out
	case "mapkeytm":
		out := map[keytm]interface{}{}
		for i, e := range s.L {
			out[keytm{util.Unq(s.Keys[i])}] = build(e)
		}
		return out
	case "struct":
		r := rec{d: 1}
		if len(s.L) > 0 {
			r.A = build(s.L[0])
		}
		if len(s.L) > 1 {
			r.B = build(s.L[1])
		}
		if len(s.L) > 2 {
			r.C = build(s.L[2])
		}
		return r
	case "ptr":
		v := build(s.L[0])
		return &v
	case "marsh":
		return marsh{util.Unq(s.S)}
	case "badmarsh":
		return badMarsh{util.Unq(s.S)}
	case "errmarsh":
		return errMarsh{}
	case "panicmarsh":
		return panicMarsh{}
	case "panictextm":
		return panicTextm{}
	case "textm":
		return textm{util.Unq(s.S)}
	case "raw":
		return json.RawMessage(util.Unq(s.S))
	case "number":
		return json.Number(util.Unq(s.S))
	case "chan":
		return make(chan int)
	case "func":
		return func() {}
	case "nan":
		return math.NaN()
	case "inf":
		return math.Inf(1)
	case "cycle":
		c := &cyc{}
		c.Next = c
		return c
	case "complex":
		return complex(1, 2)
	}
	return nil
}

var hostileJS = []string{"</script>", "</SCRIPT >", "<!--", "-->", "<script>", "]]>", "&", "&amp;", "&lt;", "<", ">", " ", " ", "\"", "'", "\\", "\\u003c", ";\n", "\n", "\r", "\x00", "\x7f", "\xff", "\xed\xa0\x80",
	"*/", "/*", "//", "`", "${", "alert(1)", "var x = 1;", "\u0085", "\ufeff", "é", "日本", "😀", "퟿", "a", "0", " ", "{", "}", "[", "]", ",", ":", "\t", "\b", "\f"}

func genSpec(r *core.Rng, depth int) spec {
	k := r.Intn(22)
	if depth >= 3 && k >= 6 && k <= 11 {
		k = 0
	}
	switch k {
	case 0, 1, 2:
		return spec{Kind: "str", S: util.Q(gen.Soup(r, hostileJS, r.Intn(6)))}
	case 3:
		return spec{Kind: "bytes", S: util.Q(gen.RandBytes(r, r.Intn(8)))}
	case 4:
		switch r.Intn(4) {
		case 0:
			return spec{Kind: "int", N: float64(int64(r.U64()>>11) - (1 << 52))}
		case 1:
			return spec{Kind: "float", N: float64(r.Intn(2000000)-1000000) / 1024}
		case 2:
			return spec{Kind: "float", N: math.Float64frombits(r.U64()&^(0x7ff<<52) | uint64(r.Intn(2046)+1)<<52)}
		default:
			return spec{Kind: "bool", N: float64(r.Intn(2))}
		}
	case 5:
		return spec{Kind: "nil"}
	case 6, 7:
		n := r.Intn(4)
		s := spec{Kind: "list"}
		for i := 0; i < n; i++ {
			s.L = append(s.L, genSpec(r, depth+1))
		}
		return s
	case 8, 9:
		n := r.Intn(4)
		s := spec{Kind: "map"}
		if r.Intn(5) == 0 {
			s.Kind = "mapkeytm"
		}
		seen := map[string]bool{}
		for i := 0; i < n; i++ {
			key := gen.Soup(r, hostileJS, r.Intn(3))
			if seen[key] {
				continue
			}
			seen[key] = true
			s.Keys = append(s.Keys, util.Q(key))
			s.L = append(s.L, genSpec(r, depth+1))
		}
		return s
	case 10:
		s := spec{Kind: "struct"}
		for i := 0; i < 3; i++ {
			s.L = append(s.L, genSpec(r, depth+1))
		}
		return s
	case 11:
		return spec{Kind: "ptr", L: []spec{genSpec(r, depth+1)}}
	case 12, 13:
		return spec{Kind: "marsh", S: util.Q(gen.Soup(r, hostileJS, r.Intn(6)))}
	case 14:
		return spec{Kind: "textm", S: util.Q(gen.Soup(r, hostileJS, r.Intn(6)))}
	case 15:
		raws := []string{`"</script>"`, `{"a":"<!--"}`, `[1,2,"&"]`, `" "`, "\" \"", `1`, `null`, `"<"`, ` "x" `, `{"</script>":1}`, `[`, `"unterminated`, `</script>`, `1;alert(1)`, ``, `"a" "b"`, `{"a":1}//x`, "\"\xff\"", "nul", "tru", "[1,]"}
		return spec{Kind: "raw", S: util.Q(raws[r.Intn(len(raws))])}
	case 16:
		nums := []string{"1", "-0", "1e400", "1.5e-7", "0x10", "1;alert(1)", "</script>", "NaN", "", "01", "1e", "+1", "١"}
		return spec{Kind: "number", S: util.Q(nums[r.Intn(len(nums))])}
	case 17:
		return spec{Kind: []string{"chan", "func", "nan", "inf", "cycle", "complex", "errmarsh", "panicmarsh", "panictextm"}[r.Intn(9)]}
	case 18:
		bads := []string{`</script>`, `"a"];alert(1);[`, `{`, `"x`, `1 2`, ``, `"</script>"`, "\" \"", `{"a":"&"}`, `<!--`}
		return spec{Kind: "badmarsh", S: util.Q(bads[r.Intn(len(bads))])}
	default:
		return spec{Kind: "str", S: util.Q(gen.Hostile(r))}
	}
}

func init() {
	core.Register(&core.Monitor{
		ID:    "C17",
		Level: "exploration",
		Rule: "inputs: (name, data, script) with names from a grammar (valid identifiers, digit-first, empty, spaces, '$', non-ASCII letters, newline-terminated) driven through reflect conversion of the constant-only parameters; data from a recursive spec generator: hostile strings (</script>, <!--, U+2028/9, invalid UTF-8), []byte, numbers, nested lists/maps/structs/pointers, json.Marshaler and TextMarshaler returning hostile text (also as map keys), json.RawMessage / json.Number valid and invalid, Marshalers returning invalid JSON, unencodable values (chan, func, NaN, Inf, cycle, complex, failing Marshaler) and Marshalers that panic; one case in six is a two-call history: the judged call is preceded by a call that fails or panics in the middle of the encoding (recovered), so that state kept between calls would show; " +
			"non-trivial = data contains a hostile string or an unencodable value; distinct by (name, data spec, script)",
		Assumptions: []string{"oracle: encoding/json used in an independent mode (Encoder with SetEscapeHTML(false), Decoder with UseNumber) for the round trip; frame split by known lengths"},
		Run:         run,
		Replay:      replay,
		MinDistinct: func(string) int64 { return 20000 },
	})
}

func replay(c *core.Ctx, raw json.RawMessage) error {
	var k kase
	if err := json.Unmarshal(raw, &k); err != nil {
		return err
	}
	check(c, k)
	return nil
}

func asciiIdent(s string) bool {
	if s == "" {
		return false
	}
	for i := 0; i < len(s); i++ {
		b := s[i]
		ok := b == '$' || b == '_' || 'a' <= b && b <= 'z' || 'A' <= b && b <= 'Z' || i > 0 && '0' <= b && b <= '9'
		if !ok {
			return false
		}
	}
	return true
}

func decode(j []byte) (interface{}, error) {
	d := json.NewDecoder(bytes.NewReader(j))
	d.UseNumber()
	var v interface{}
	if err := d.Decode(&v); err != nil {
		return nil, err
	}
	if d.More() {
		return nil, fmt.Errorf("more than one JSON value")
	}
	var extra interface{}
	if err := d.Decode(&extra); err == nil {
		return nil, fmt.Errorf("more than one JSON value")
	}
	return v, nil
}

func check(c *core.Ctx, k kase) {
	check1(c, k)
}

// check1 reports whether the judged call ended in a panic or an error.
func check1(c *core.Ctx, k kase) (failed bool) {
	c.Eval(1)
	name, script := util.Unq(k.Name), util.Unq(k.Script)
	data := build(k.Data)
	ks := util.JSON(k.Data)
	if k.Prev != nil {
		c.Count("calls_preceded_by_a_failing_or_panicking_call", 1)
		c.DistinctS(name, ks, script, util.JSON(k.Prev))
		pp := core.Recover(func() {
			util.CallConst(safehtml.ScriptFromDataAndConstant, util.Unq(k.Prev.Name), build(k.Prev.Data), util.Unq(k.Prev.Script))
		})
		if pp != nil {
			c.Count("preceding_call_panicked", 1)
		}
	} else {
		c.DistinctS(name, ks, script)
	}
	var res safehtml.Script
	var err error
	p := core.Recover(func() {
		out := util.CallConst(safehtml.ScriptFromDataAndConstant, name, data, script)
		res = out[0].Interface().(safehtml.Script)
		if e, ok := out[1].Interface().(error); ok {
			err = e
		}
	})
	if p != nil {
		failed = true
		if k.Data.Kind == "cycle" || strings.Contains(ks, `"cycle"`) {
			return
		}
		if strings.Contains(ks, `"panicmarsh"`) || strings.Contains(ks, `"panictextm"`) {
			c.Count("panics_raised_by_the_callers_marshaler", 1)
			return
		}
		c.Violation(k, "ScriptFromDataAndConstant panicked: %v", p)
		return
	}
	// independent encoding of the data
	var ref bytes.Buffer
	enc := json.NewEncoder(&ref)
	enc.SetEscapeHTML(false)
	var refErr error
	if pp := core.Recover(func() { refErr = enc.Encode(data) }); pp != nil {
		refErr = fmt.Errorf("panic: %v", pp)
	}
	if err != nil {
		failed = true
		c.Count("errors", 1)
		if res.String() != "" {
			c.Violation(k, "error %q but non-zero Script %+q", err, res.String())
		}
		return
	}
	c.Count("successes", 1)
	if !asciiIdent(name) {
		c.Violation(k, "name %+q is not an ASCII identifier but the call succeeded with %+q", name, res.String())
		return
	}
	if refErr != nil {
		c.Violation(k, "data cannot be encoded (%v) but the call succeeded with %+q", refErr, res.String())
		return
	}
	out := res.String()
	pre, suf := "var "+name+" = ", ";\n"+script
	if !strings.HasPrefix(out, pre) || !strings.HasSuffix(out, suf) || len(out) < len(pre)+len(suf) {
		c.Violation(k, "result %+q is not framed as %+q J %+q", out, pre, suf)
		return
	}
	j := out[len(pre) : len(out)-len(suf)]
	for _, bad := range []string{"<", ">", "&", " ", " "} {
		if strings.Contains(j, bad) {
			c.Violation(k, "JSON literal %+q contains %+q", j, bad)
			return
		}
	}
	got, derr := decode([]byte(j))
	if derr != nil {
		c.Violation(k, "embedded literal %+q is not a single JSON text: %v", j, derr)
		return
	}
	want, werr := decode(ref.Bytes())
	if werr != nil {
		// the independent encoding itself is not valid JSON (a Marshaler returned garbage that
		// the encoder accepted): nothing to compare with
		c.Count("reference_undecodable", 1)
		return
	}
	if !reflect.DeepEqual(got, want) {
		c.Violation(k, "embedded literal %+q decodes to %#v, the data's JSON value is %#v", j, got, want)
	}
	return
}

func run(c *core.Ctx) {
	r := c.Rng("cases")
	names := []string{"x", "ab", "data", "$", "$$", "_a", "a1", "A_b$9", "my_var", "1a", "", " a", "a ", "a b", "a-b", "a.b", "a;alert(1)//", "\u00e9", "a\u00e9", "a\n", "var", "a=1;b", "\uff41", "a\u200d", "\u212a", "x\x00",
		"\u212aey", "\u017ftate", "a\u212a", "x\u017f", "\u212a\u212a", "ab\u0131", "d\u0130ta", "a\ufb01", "a\u0300", "x\u2028y", "$\u00e9", "_\u03a9"}
	scripts := []string{"", "f(x);", "alert(1)", "// c\nrun()", "\"</script>\"", ";\n", "var y = 2;\n"}
	n := c.N(600000, 6000000) / c.NShards
	var lastFailed *kase
	for i := 0; i < n; i++ {
		name := names[r.Intn(len(names))]
		if r.Intn(3) == 0 {
			name = "ab" // most cases exercise the data path
		}
		if r.Intn(10) == 0 {
			name = gen.Soup(r, []string{"a", "Z", "0", "_", "$", " ", "-", "\u00e9", "\n", "\u212a", "\u017f", "k", "s", "\u0131", "\uff41"}, r.Intn(5))
		}
		k := kase{Name: util.Q(name), Script: util.Q(scripts[r.Intn(len(scripts))]), Data: genSpec(r, 0)}
		if r.Intn(6) == 0 {
			// a two-call history: first a call that fails or panics in the middle of the encoding
			bad := []spec{{Kind: "panicmarsh"}, {Kind: "panictextm"}, {Kind: "errmarsh"}, {Kind: "chan"}, {Kind: "nan"}, {Kind: "badmarsh", S: util.Q("{")},
				{Kind: "list", L: []spec{{Kind: "str", S: util.Q("</script>")}, {Kind: "panicmarsh"}}},
				{Kind: "map", Keys: []string{util.Q("a"), util.Q("b")}, L: []spec{{Kind: "int", N: 1}, {Kind: "panictextm"}}},
				{Kind: "struct", L: []spec{{Kind: "str", S: util.Q("x")}, {Kind: "errmarsh"}, {Kind: "nil"}}}}
			pn := []string{"secretCfg", "ab", "1a", ""}[r.Intn(4)]
			k.Prev = &kase{Name: util.Q(pn), Script: util.Q(scripts[r.Intn(len(scripts))]), Data: bad[r.Intn(len(bad))]}
		}
		if k.Prev == nil && lastFailed != nil {
			// every case is self-contained: the failing call that preceded it is part of it
			k.Prev = lastFailed
		}
		c.Journal(util.JSON(k))
		lastFailed = nil
		if check1(c, k) {
			kk := k
			kk.Prev = nil
			lastFailed = &kk
		}
		if i < 2 {
			c.Sample(k)
		}
	}
}
