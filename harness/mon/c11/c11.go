// Package c11 monitors URLSanitized (property C11).
package c11

import (
	"encoding/json"
	"html"
	"strings"

	"github.com/google/safehtml"

	"verif/core"
	"verif/gen"
	"verif/oracle/htmltok"
	"verif/oracle/refs"
	"verif/util"
)

type kase struct {
	S string `json:"s_quoted"`
}

func init() {
	core.Register(&core.Monitor{
		ID:    "C11",
		Level: "exploration",
		Rule: "inputs: all 1024 case foldings of 'javascript:' x one inserted unit (every byte, code points with ASCII case mappings, C0/C1/whitespace/format code points, entity-like text) at each of the 12 positions x {bare, leading junk, trailing junk} " +
			"(quick: all foldings bare + 16 foldings for insertions; thorough: all), entity spellings of the colon, all strings up to length 4 (thorough 5) over a 14-symbol URL alphabet, seeded URL soups/mutations; " +
			"non-trivial = input contains ':' or '&' or a non-alphanumeric byte; distinct by input bytes",
		Assumptions: []string{"oracle: refs.Scheme (WHATWG scheme start/scheme states after input preprocessing), character-reference decoding by htmltok (attribute mode) and by Go's html.UnescapeString"},
		Run:         run,
		Replay:      replay,
		MinDistinct: func(string) int64 { return 100000 },
	})
}

func replay(c *core.Ctx, raw json.RawMessage) error {
	var k kase
	if err := json.Unmarshal(raw, &k); err != nil {
		return err
	}
	check(c, util.Unq(k.S))
	return nil
}

func isSchemeByte(b byte) bool {
	return 'a' <= b && b <= 'z' || 'A' <= b && b <= 'Z' || '0' <= b && b <= '9' || b == '+' || b == '.' || b == '-'
}

// mustKeep implements the converse clause of the property.
func mustKeep(s string) (bool, string) {
	// ASCII scheme other than javascript
	i := 0
	for i < len(s) && isSchemeByte(s[i]) {
		i++
	}
	if i > 0 && i < len(s) && s[i] == ':' {
		if strings.ToLower(s[:i]) != "javascript" {
			return true, "starts with the ASCII scheme " + s[:i]
		}
		return false, ""
	}
	// ':' and '&' only after the first '/', '?' or '#'
	j := strings.IndexAny(s, "/?#")
	if j < 0 {
		j = len(s)
	}
	if !strings.ContainsAny(s[:j], ":&") {
		return true, "has no ':' or '&' before the first '/', '?' or '#'"
	}
	return false, ""
}

func check(c *core.Ctx, s string) {
	c.Eval(1)
	c.Note(func() interface{} { return kase{util.Q(s)} })
	var out string
	if p := core.Recover(func() { out = safehtml.URLSanitized(s).String() }); p != nil {
		c.Violation(kase{util.Q(s)}, "URLSanitized panicked on %+q: %v", s, p)
		return
	}
	nontriv := false
	for i := 0; i < len(s); i++ {
		b := s[i]
		if !('a' <= b && b <= 'z' || 'A' <= b && b <= 'Z' || '0' <= b && b <= '9') {
			nontriv = true
			break
		}
	}
	if nontriv {
		c.DistinctS(s)
	}
	if out != s {
		if out != "about:invalid#zGoSafez" {
			c.Violation(kase{util.Q(s)}, "URLSanitized(%+q)=%+q is neither the input nor the innocuous URL", s, out)
			return
		}
		c.Count("rejected", 1)
		if keep, why := mustKeep(s); keep {
			c.Violation(kase{util.Q(s)}, "URLSanitized(%+q) was replaced although the input %s", s, why)
		}
		return
	}
	c.Count("kept", 1)
	if refs.Scheme(s) == "javascript" {
		c.Violation(kase{util.Q(s)}, "URLSanitized kept %+q, in which a WHATWG URL parser finds the javascript scheme", s)
		return
	}
	if strings.Contains(s, "&") {
		if d := htmltok.DecodeAttrValue(s); refs.Scheme(d) == "javascript" {
			c.Violation(kase{util.Q(s)}, "URLSanitized kept %+q, which decodes (attribute value) to %+q with the javascript scheme", s, d)
			return
		}
		if d := html.UnescapeString(s); refs.Scheme(d) == "javascript" {
			c.Violation(kase{util.Q(s)}, "URLSanitized kept %+q, which decodes to %+q with the javascript scheme", s, d)
			return
		}
	}
}

func units() []string {
	var u []string
	for b := 0; b < 256; b++ {
		u = append(u, string([]byte{byte(b)}))
	}
	for _, r := range []rune{0x212A, 0x0130, 0x0131, 0x017F, 0x0085, 0x00A0, 0x00AD, 0x1680, 0x180E, 0x2028, 0x2029, 0x202A, 0x202E, 0x202F, 0x205F, 0x2060, 0x2061, 0x2062, 0x2063, 0x2064, 0x3000, 0xFEFF, 0xFFFD, 0xFF1A, 0xFE55, 0xA789, 0x02D0, 0x0589, 0x05C3, 0x2236} {
		u = append(u, string(r))
	}
	for r := rune(0x80); r <= 0x9F; r++ {
		u = append(u, string(r))
	}
	for r := rune(0x2000); r <= 0x200F; r++ {
		u = append(u, string(r))
	}
	for r := rune(0xFF21); r <= 0xFF5A; r++ { // fullwidth letters
		u = append(u, string(r))
	}
	u = append(u, "&Tab;", "&NewLine;", "&#9;", "&#10;", "&#13;", "&#x9;", "&#x0a", "&#x0D;", "&#0;", "&#32;", "&nbsp;", "&shy;", "&amp;", "&zwnj;", "&lt;", "&#x20", "&tab;", "&TAB;", "&Tab", "&#9", "&#x9",
		"&colon;", "&#58;", "&#x3a;", "&#x3A", "&#58", "&#0058;", "&#x003a;", "&colon", "&Colon;", "\t\n\r", " \t", "%09", "%3a", "\\", "\\t", "\\x3a", "\\u003a", "/*x*/", "//", "/", "?", "#")
	return u
}

var word = "javascript:"

func folding(mask int) string {
	b := []byte(word)
	for i := 0; i < 10; i++ {
		if mask>>i&1 == 1 {
			b[i] -= 32
		}
	}
	return string(b)
}

func run(c *core.Ctx) {
	us := units()
	// all foldings, bare and with payload
	for m := 0; m < 1024; m++ {
		if !c.Mine(m) {
			continue
		}
		f := folding(m)
		check(c, f)
		check(c, f+"alert(1)")
		check(c, " "+f+"alert(1)")
		check(c, "\x01"+f)
	}
	c.SetExhaustive("all 1024 case foldings of javascript:")
	// insertions
	masks := []int{0, 1023, 0x155, 0x2aa, 1, 512}
	r := c.SharedRng("masks")
	for len(masks) < 16 {
		masks = append(masks, r.Intn(1024))
	}
	if c.Thorough() {
		masks = masks[:0]
		for m := 0; m < 1024; m++ {
			masks = append(masks, m)
		}
	}
	junkPre := []string{"", " ", "\x00", "x", "\t", "&#1;", "\n\r "}
	junkPost := []string{"", "alert(1)", "//x", " ", "&"}
	idx := 0
	for _, m := range masks {
		f := folding(m)
		for pos := 0; pos <= len(f); pos++ {
			for ui, u := range us {
				idx++
				if !c.Mine(idx) {
					continue
				}
				s := f[:pos] + u + f[pos:]
				check(c, s)
				check(c, junkPre[1+(ui+pos)%(len(junkPre)-1)]+s)
				check(c, s+junkPost[1+(ui+pos)%(len(junkPost)-1)])
				if pos < len(f) {
					// replacement instead of insertion
					check(c, f[:pos]+u+f[pos+1:])
				}
			}
		}
	}
	if c.Thorough() {
		c.SetExhaustive("all foldings x unit inserted/replaced at every position")
	}
	// the scheme at particular offsets: padding that a URL parser strips
	bi := 0
	for _, n := range gen.BoundaryLens() {
		for _, pad := range []string{" ", "\t", "\n", "\x01", "\r", " \t"} {
			bi++
			if !c.Mine(bi) {
				continue
			}
			p := gen.Pad(pad, n)
			for _, m := range []int{0, 1023, 0x155} {
				f := folding(m)
				check(c, p+f+"alert(1)")
				if pad != " " && pad != "\x01" {
					check(c, f[:4]+p+f[4:]+"x") // inside the scheme (TAB/LF/CR are removed anywhere)
					check(c, f[:10]+p+":x")
				}
				check(c, p+f[:10]+"&colon;x")
				check(c, p+f[:10]+"&#58;x")
			}
			check(c, gen.Pad("a", n)+":x")
			check(c, gen.Pad("a", n)+"/javascript:x")
			check(c, "https:"+gen.Pad("/", n)+"javascript:x")
		}
	}
	// two insertions for a few foldings
	r2 := c.Rng("two")
	for i := 0; i < c.N(100000, 2000000)/c.NShards; i++ {
		f := folding(r2.Intn(1024))
		p1, p2 := r2.Intn(len(f)+1), r2.Intn(len(f)+1)
		if p1 > p2 {
			p1, p2 = p2, p1
		}
		s := f[:p1] + us[r2.Intn(len(us))] + f[p1:p2] + us[r2.Intn(len(us))] + f[p2:]
		check(c, s)
	}
	// short strings over a URL alphabet
	alpha := []string{"j", "a", ":", "/", "?", "#", "&", ";", "\t", " ", "\n", "x", "%", "."}
	maxLen := c.N(4, 5)
	var rec func(prefix string, depth int)
	cnt := 0
	rec = func(prefix string, depth int) {
		cnt++
		if c.Mine(cnt) {
			check(c, prefix)
		}
		if depth == maxLen {
			return
		}
		for _, a := range alpha {
			rec(prefix+a, depth+1)
		}
	}
	rec("", 0)
	c.SetExhaustive("all strings up to length 4 over the 14-symbol URL alphabet")
	// seeded soups
	r3 := c.Rng("soup")
	for i := 0; i < c.N(600000, 6000000)/c.NShards; i++ {
		var s string
		switch r3.Intn(4) {
		case 0:
			s = gen.Mutate(r3, folding(r3.Intn(1024))+gen.Soup(r3, gen.URLAtoms, r3.Intn(3)), gen.URLAtoms)
		case 1:
			s = gen.RandBytes(r3, r3.Intn(16))
		default:
			s = gen.Soup(r3, gen.URLAtoms, 1+r3.Intn(6))
		}
		check(c, s)
		if i < 3 {
			c.Sample(map[string]string{"input": util.Q(s), "output": util.Q(safehtml.URLSanitized(s).String())})
		}
	}
}
