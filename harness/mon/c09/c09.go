// Package c09 monitors "concurrent execution of a template set is race-free and equals
// sequential execution" (C09). The worker is built with the Go race detector.
package c09

import (
	"sort"
	"bytes"
	"encoding/json"
	"fmt"
	"reflect"
	"runtime"
	"strings"
	"sync"
	"sync/atomic"
	"time"

	"github.com/google/safehtml/template"
	"github.com/google/safehtml/template/uncheckedconversions"

	"verif/core"
	"verif/gen"
	"verif/hist"
	"verif/util"
)

type gop struct {
	Kind string `json:"k"` // exect execthtml lookupexec templates defined name lookup
	Name string `json:"n"`
	Data int    `json:"d"`
}

type kase struct {
	Texts   []string       `json:"texts"`
	Data    []gen.DataSpec `json:"data"`
	Threads [][]gop        `json:"threads"`
	HookSeed uint64        `json:"hook_seed"`
	Repeat  int            `json:"repeat"`
}

func init() {
	core.Register(&core.Monitor{
		ID:    "C09",
		Level: "exploration",
		Race:  true,
		Rule: "many short concurrent runs: a fresh set (3-6 members sharing helper templates, some with members whose analysis fails), 2-16 goroutines released together, each doing first and repeated ExecuteTemplate / ExecuteTemplateToHTML / Lookup+Execute and read-only Templates, Name, DefinedTemplates, Lookup calls on seeded member choices; the template function tick, called at the start of member bodies, makes read-only calls back into the set (Lookup, Templates, DefinedTemplates) during execution; a run whose calls have not all returned after 90 s is a deadlock; build-tag hooks in the engine (between analysis and execution, on entering analysis, in the failure path, inside commit) call back into the monitor, which logs the event order and injects seeded Gosched/spins. " +
			"Oracles: (1) the Go race detector (reports counted from its log, de-duplicated by stack pair); (2) every operation's result (bytes, error-or-not) equals the result of the same call made alone on a fresh set with the same definitions. non-trivial = run with >=2 goroutines executing different members; distinct = distinct hook event orders (interleavings) observed",
		Assumptions: []string{"Go race detector (happens-before, reports only races that occur in the executed schedules)", "sequential reference: the engine on a fresh set (property C06 makes it independent of order)", "schedules are not reproducible; replay repeats the same workload 200 times"},
		Run:         run,
		Replay:      replay,
		MinDistinct: func(string) int64 { return 50 },
		Shards:      func(string) int { return 4 },
	})
}

type opResult struct {
	out   string
	isErr bool
	err   string
	panic string
}

// tickCalls counts calls of the template function "tick"; every call makes one read-only
// call back into the set that is being executed (user code called during an execution may do
// that: Lookup to test for an optional partial, DefinedTemplates for a message, ...).
var tickCalls, freshTypes uint64

func mkSet(texts []string) (*template.Template, error) {
	var t *template.Template
	t = template.New("root").Funcs(template.FuncMap{"tick": func() string {
		switch n := atomic.AddUint64(&tickCalls, 1); n % 4 {
		case 0:
			t.Lookup("m0")
		case 1:
			t.Templates()
		case 2:
			t.DefinedTemplates()
		default:
			t.Lookup("nope")
		}
		return ""
	}})
	for _, tx := range texts {
		if _, err := t.ParseFromTrustedTemplate(uncheckedconversions.TrustedTemplateFromStringKnownToSatisfyTypeContract(tx)); err != nil {
			return nil, err
		}
	}
	return t, nil
}

func doOp(t *template.Template, o gop, data []map[string]interface{}) (r opResult) {
	pn := core.Recover(func() {
		var b bytes.Buffer
		var err error
		switch o.Kind {
		case "exect":
			err = t.ExecuteTemplate(&b, o.Name, data[o.Data])
			r.out = b.String()
		case "execthtml":
			h, e := t.ExecuteTemplateToHTML(o.Name, data[o.Data])
			err, r.out = e, h.String()
		case "lookupexec":
			if m := t.Lookup(o.Name); m != nil {
				err = m.Execute(&b, data[o.Data])
				r.out = b.String()
			}
		case "templates":
			// the caller owns the slice it is given: it reads it, sorts the names and clears it
			ts := t.Templates()
			if len(ts) == 0 {
				err = fmt.Errorf("no templates")
			}
			var names []string
			for i, m := range ts {
				if m == nil {
					err = fmt.Errorf("Templates() returned a nil entry at index %d of %d", i, len(ts))
					break
				}
				names = append(names, m.Name())
			}
			sort.Strings(names)
			r.out = strings.Join(names, ",")
			for i := range ts {
				ts[i] = nil
			}
		case "defined":
			_ = t.DefinedTemplates()
		case "name":
			r.out = t.Name()
		case "lookup":
			if m := t.Lookup(o.Name); m != nil {
				r.out = m.Name()
			}
		}
		if err != nil {
			r.isErr, r.err = true, err.Error()
		}
	})
	if pn != nil {
		r.panic = fmt.Sprint(pn)
	}
	return
}

var (
	hookMu     sync.Mutex
	hookEvents []string
	hookCount  uint64
	hookSeed   uint64
)

func hook(point, name string) {
	n := atomic.AddUint64(&hookCount, 1)
	hookMu.Lock()
	hookEvents = append(hookEvents, point+":"+name)
	hookMu.Unlock()
	// seeded perturbation
	x := (n + hookSeed) * 0x9E3779B97F4A7C15
	x ^= x >> 29
	switch x % 5 {
	case 0:
		runtime.Gosched()
	case 1:
		for i := 0; i < int(x>>8%2000); i++ {
			_ = i
		}
	case 2:
		runtime.Gosched()
		runtime.Gosched()
	}
}

// runWatchdog bounds one concurrent run (a few calls on small templates: milliseconds).
const runWatchdog = 90 * time.Second

func firstLines(s string, n int) string {
	l := strings.SplitN(s, "\n", n+1)
	if len(l) > n {
		l = l[:n]
	}
	return strings.Join(l, " | ")
}

func isExec(k string) bool { return k == "exect" || k == "execthtml" || k == "lookupexec" }

// runOnce performs one concurrent run and returns violations as strings.
func runOnce(c *core.Ctx, k kase) (interleaving string, bad string) {
	set, err := mkSet(k.Texts)
	if err != nil {
		c.Count("sets_not_parsed", 1)
		return "", ""
	}
	var data []map[string]interface{}
	for _, d := range k.Data {
		m := d.Build()
		m["DOTS"] = ".."
		// values whose dynamic types no execution in this process has seen before: type-keyed
		// state of the engine (caches) is then first written during the concurrent phase
		for _, f := range []string{"T0", "T1"} {
			n := int(atomic.AddUint64(&freshTypes, 1))
			v := reflect.New(reflect.ArrayOf(n%4000+1, reflect.TypeOf(""))).Elem()
			v.Index(0).SetString("a<b")
			m[f] = v.Interface()
		}
		data = append(data, m)
	}
	hookMu.Lock()
	hookEvents = hookEvents[:0]
	hookMu.Unlock()
	atomic.StoreUint64(&hookCount, 0)
	hookSeed = k.HookSeed
	template.VerifHook = hook
	results := make([][]opResult, len(k.Threads))
	var start, done sync.WaitGroup
	start.Add(1)
	for gi := range k.Threads {
		done.Add(1)
		results[gi] = make([]opResult, len(k.Threads[gi]))
		go func(gi int) {
			defer done.Done()
			start.Wait()
			for oi, o := range k.Threads[gi] {
				results[gi][oi] = doOp(set, o, data)
			}
		}(gi)
	}
	start.Done()
	finished := make(chan struct{})
	go func() { done.Wait(); close(finished) }()
	select {
	case <-finished:
	case <-time.After(runWatchdog):
		// logical verdict: some call has not returned although nothing else is running
		buf := make([]byte, 1<<16)
		buf = buf[:runtime.Stack(buf, true)]
		template.VerifHook = nil
		return "", fmt.Sprintf("DEADLOCK: after %v the concurrent calls have not all returned (each returns within milliseconds when made alone); goroutines: %s", runWatchdog, firstLines(string(buf), 60))
	}
	template.VerifHook = nil
	hookMu.Lock()
	interleaving = strings.Join(hookEvents, " ")
	nEvents := len(hookEvents)
	hookMu.Unlock()
	c.Count("hook_events", nEvents)
	// overlaps: an analysis that starts after some execution has begun
	seenExec := false
	for _, e := range strings.Fields(interleaving) {
		if strings.HasPrefix(e, "execute:") {
			seenExec = true
		}
		if strings.HasPrefix(e, "escape:") && seenExec {
			c.Count("analysis_started_while_executions_in_flight", 1)
			break
		}
	}
	// reference: each distinct (kind class, name, data) alone on a fresh set
	refs := map[string]opResult{}
	for gi := range k.Threads {
		for oi, o := range k.Threads[gi] {
			c.Eval(1)
			got := results[gi][oi]
			if got.panic != "" {
				return interleaving, fmt.Sprintf("goroutine %d op %d %s(%q) panicked: %s", gi, oi, o.Kind, o.Name, got.panic)
			}
			if !isExec(o.Kind) {
				if o.Kind == "name" && got.out != "root" {
					return interleaving, fmt.Sprintf("Name() returned %q", got.out)
				}
				if o.Kind == "lookup" && got.out != "" && got.out != o.Name {
					return interleaving, fmt.Sprintf("Lookup(%q) returned the template %q", o.Name, got.out)
				}
				continue
			}
			key := fmt.Sprintf("%s|%s|%d", o.Kind, o.Name, o.Data)
			ref, ok := refs[key]
			if !ok {
				fresh, err := mkSet(k.Texts)
				if err != nil {
					continue
				}
				ref = doOp(fresh, o, data)
				refs[key] = ref
			}
			c.Count("operations_compared_with_sequential_reference", 1)
			if ref.out != got.out || ref.isErr != got.isErr {
				return interleaving, fmt.Sprintf("goroutine %d op %d %s(%q, data%d) returned (%q, err=%q); made alone on a fresh set it returns (%q, err=%q)", gi, oi, o.Kind, o.Name, o.Data, got.out, got.err, ref.out, ref.err)
			}
		}
	}
	return interleaving, ""
}

func replay(c *core.Ctx, raw json.RawMessage) error {
	var k kase
	if err := json.Unmarshal(raw, &k); err != nil {
		return err
	}
	if len(k.Texts) == 0 {
		return fmt.Errorf("no concurrent case in this file (race reports carry their log instead)")
	}
	seen := map[string]bool{}
	reps := 200
	if k.Repeat > 0 && k.Repeat < reps {
		reps = k.Repeat // expensive cases say how often they want to be run
	}
	for i := 0; i < reps; i++ {
		k.HookSeed += uint64(i)
		il, bad := runOnce(c, k)
		seen[il] = true
		if bad != "" {
			c.Violation(k, "%s", bad)
			return nil
		}
	}
	fmt.Printf("  %d repetitions, %d distinct interleavings, no difference from the sequential reference\n", reps, len(seen))
	return nil
}

func genCase(r *core.Rng) kase {
	set := gen.GenSet(r, gen.SetOpts{FailMembers: r.Intn(2)})
	k := kase{Texts: set.Texts, Data: hist.GenData(r, 2), HookSeed: r.U64()}
	// a member that prints values of fresh dynamic types in contexts without a typed sanitizer
	k.Texts = append(k.Texts, `{{define "mt"}}{{tick}}<p title="{{$.T0}}" alt='{{$.T1}}'>{{$.T1}}</p><i class="{{$.T0}}">{{$.T0 | html}}</i>{{end}}`)
	set.Members = append(set.Members, "mt", "mt")
	g := 2 + r.Intn(15)
	if r.Intn(3) == 0 {
		g = 2 + r.Intn(3)
	}
	names := append([]string{}, set.Members...)
	kinds := []string{"exect", "exect", "exect", "execthtml", "lookupexec", "templates", "defined", "name", "lookup", "defined"}
	for i := 0; i < g; i++ {
		var ops []gop
		for n := 1 + r.Intn(4); n > 0; n-- {
			o := gop{Kind: kinds[r.Intn(len(kinds))], Name: names[r.Intn(len(names))], Data: r.Intn(2)}
			if r.Intn(12) == 0 {
				o.Name = "nope"
			}
			ops = append(ops, o)
		}
		k.Threads = append(k.Threads, ops)
	}
	return k
}

func run(c *core.Ctx) {
	r := c.Rng("runs")
	n := c.N(4000, 80000) / c.NShards
	inter := map[uint64]bool{}
	for i := 0; i < n; i++ {
		k := genCase(r)
		c.Journal(util.JSON(k))
		il, bad := runOnce(c, k)
		if bad != "" {
			c.Violation(k, "%s", bad)
			if strings.HasPrefix(bad, "DEADLOCK") {
				return // blocked goroutines are left behind: nothing after this run can be trusted
			}
			continue
		}
		members := map[string]bool{}
		for _, th := range k.Threads {
			for _, o := range th {
				if isExec(o.Kind) {
					members[o.Name] = true
				}
			}
		}
		c.Hist("goroutines", fmt.Sprint(len(k.Threads)))
		if len(members) >= 2 && il != "" {
			h := core.Hash64(il)
			if !inter[h] {
				inter[h] = true
				c.Distinct(h)
			}
		}
		if i < 1 {
			c.Sample(map[string]interface{}{"case": k, "hook_event_order": il})
		}
	}
	// errors that point into the tree of a callee analysed successfully later (nesting depth):
	// one goroutine prints the error of "caller" while another executes "deep" for the first time
	deep := `{{define "deep"}}` + strings.Repeat("{{if $.C0}}", 9997) + "x{{$.S0}}" + strings.Repeat("{{end}}", 9997) + `{{end}}` +
		`{{define "caller"}}<b>{{if $.C0}}{{if $.C0}}{{if $.C0}}{{if $.C0}}{{template "deep" .}}{{end}}{{end}}{{end}}{{end}}</b>{{end}}`
	caller, callee := gop{Kind: "exect", Name: "caller"}, gop{Kind: "exect", Name: "deep"}
	for i := 0; i < c.N(8, 80)/c.NShards; i++ {
		k := kase{Texts: []string{deep}, Data: genCase(r).Data, HookSeed: uint64(r.Intn(1 << 30)), Repeat: 1,
			Threads: [][]gop{{caller, caller, caller, caller}, {caller, callee}, {caller, caller, caller}}}
		c.Journal(util.JSON(map[string]string{"scenario": "error that points into the live tree of a callee"}))
		c.Count("runs_with_an_error_pointing_into_a_callee_tree", 1)
		if _, bad := runOnce(c, k); bad != "" {
			c.Violation(k, "%s", bad)
		}
	}
}
