// Package c12 monitors URLSetSanitized (property C12).
package c12

import (
	"encoding/json"
	"strconv"
	"strings"

	"github.com/google/safehtml"

	"verif/core"
	"verif/gen"
	"verif/oracle/refs"
	"verif/util"
)

type kase struct {
	S string `json:"s_quoted"`
}

const innocuous = "about:invalid#zGoSafez"

func init() {
	core.Register(&core.Monitor{
		ID:    "C12",
		Level: "exploration",
		Rule: "inputs: every string of length <=6 (thorough <=7) over the 9-symbol alphabet {a : , SP WS( TAB/LF/FF/CR rotated) ( ) 1 x}, descriptor spellings (hex floats, inf/nan, underscores, signs) and javascript: URLs in every candidate position, seeded srcset soups <=200 bytes; " +
			"non-trivial = input contains a separator, whitespace or ':'; distinct by input bytes",
		Assumptions: []string{"oracle: refs.Srcset (WHATWG 'parse a srcset attribute' up to the descriptor tokenizer), refs.Scheme, strconv.ParseFloat as the meaning of 'number'"},
		Run:         run,
		Replay:      replay,
		MinDistinct: func(string) int64 { return 100000 },
	})
}

func replay(c *core.Ctx, raw json.RawMessage) error {
	var k kase
	if err := json.Unmarshal(raw, &k); err != nil {
		return err
	}
	check(c, util.Unq(k.S))
	return nil
}

func descOK(d string) bool {
	if d == "" {
		return true
	}
	if strings.ContainsAny(d, " \t\n\f\r,()") {
		return false
	}
	num := d
	if l := d[len(d)-1] | 32; 'a' <= l && l <= 'z' {
		num = d[:len(d)-1]
	}
	_, err := strconv.ParseFloat(num, 64)
	return err == nil
}

// findFrom finds needle in hay at or after from; returns index after the match or -1.
func findFrom(hay, needle string, from int) int {
	if from > len(hay) {
		return -1
	}
	i := strings.Index(hay[from:], needle)
	if i < 0 {
		return -1
	}
	return from + i + len(needle)
}

func check(c *core.Ctx, s string) {
	c.Eval(1)
	c.Note(func() interface{} { return kase{util.Q(s)} })
	var out string
	if p := core.Recover(func() { out = safehtml.URLSetSanitized(s).String() }); p != nil {
		c.Violation(kase{util.Q(s)}, "URLSetSanitized panicked on %+q: %v", s, p)
		return
	}
	if strings.ContainsAny(s, " \t\n\f\r,:") {
		c.DistinctS(s)
	}
	cands := refs.Srcset(out)
	if out == innocuous {
		c.Count("innocuous", 1)
	} else {
		c.Count("kept_some", 1)
	}
	if len(cands) == 0 {
		c.Violation(kase{util.Q(s)}, "URLSetSanitized(%+q)=%+q has no image candidate but is not the innocuous URL", s, out)
		return
	}
	cursor := 0
	for _, cd := range cands {
		if safehtml.URLSanitized(cd.URL).String() != cd.URL || refs.Scheme(cd.URL) == "javascript" {
			c.Violation(kase{util.Q(s)}, "URLSetSanitized(%+q)=%+q has candidate URL %+q that URLSanitized would not keep", s, out, cd.URL)
			return
		}
		if len(cd.Descs) > 1 {
			c.Violation(kase{util.Q(s)}, "URLSetSanitized(%+q)=%+q: candidate %+q has %d descriptors %q", s, out, cd.URL, len(cd.Descs), cd.Descs)
			return
		}
		d := ""
		if len(cd.Descs) == 1 {
			d = cd.Descs[0]
		}
		if !descOK(d) {
			c.Violation(kase{util.Q(s)}, "URLSetSanitized(%+q)=%+q: descriptor %+q is not a number followed by at most one letter", s, out, d)
			return
		}
		if out == innocuous {
			continue
		}
		// copied in order from s (after undoing %2c at either end)
		vars := []string{cd.URL}
		u := cd.URL
		if strings.HasPrefix(u, "%2c") {
			vars = append(vars, ","+u[3:])
			if strings.HasSuffix(u, "%2c") && len(u) >= 6 {
				vars = append(vars, ","+u[3:len(u)-3]+",")
			}
		}
		if strings.HasSuffix(u, "%2c") {
			vars = append(vars, u[:len(u)-3]+",")
		}
		best := -1
		for _, v := range vars {
			if e := findFrom(s, v, cursor); e >= 0 && (best < 0 || e < best) {
				best = e
			}
		}
		if best < 0 {
			c.Violation(kase{util.Q(s)}, "URLSetSanitized(%+q)=%+q: URL %+q is not copied (in order) from the input", s, out, cd.URL)
			return
		}
		cursor = best
		if d != "" {
			e := findFrom(s, d, cursor)
			if e < 0 {
				c.Violation(kase{util.Q(s)}, "URLSetSanitized(%+q)=%+q: descriptor %+q is not copied (in order) from the input", s, out, d)
				return
			}
			cursor = e
		}
	}
	// idempotent
	if again := safehtml.URLSetSanitized(out).String(); again != out {
		c.Violation(kase{util.Q(s)}, "URLSetSanitized is not idempotent: %+q -> %+q -> %+q", s, out, again)
	}
}

func run(c *core.Ctx) {
	ws := []string{"\t", "\n", "\f", "\r"}
	maxLen := c.N(6, 7)
	cnt := 0
	var rec func(prefix string, depth int)
	rec = func(prefix string, depth int) {
		cnt++
		if c.Mine(cnt) {
			check(c, prefix)
		}
		if depth == maxLen {
			return
		}
		for _, a := range []string{"a", ":", ",", " ", ws[cnt%4], "(", ")", "1", "x"} {
			rec(prefix+a, depth+1)
		}
	}
	rec("", 0)
	c.SetExhaustive("all strings up to the length bound over the 9-symbol srcset alphabet")
	// descriptor spellings and javascript: positions
	descs := []string{"1x", "2x", "1.5x", "100w", "50h", "0x1p-2", "0x1p-2x", "0X1P+3w", "inf", "Inf", "+Inf", "-inf", "nan", "NaN", "nanx", "infx", "infinity", "Infinityw", "1_000", "1_0x", "0x_1p0", "+1", "-1x", "+.5x", "1e3", "1e3w", "1e", "e", "x", "w", "1xx", "1 x", "(1x)", "1x)", "(", ")", "1,2", "", "1é", "\xff", "0b101x", "0o17w", "1.", ".", "-", "+", "1E400", "1e-400x", "0x", "__", "1__0", "٣", "１x"}
	urls := []string{"a", "/img.png", "http://x/y", "javascript:alert(1)", "JaVaScRiPt:1", "java\tscript:1", "javascript&colon;1", "x:y", ",", ",a", "a,", ",a,", ",,", "%2ca", "a%2c", "data:image/png;base64,xx", "a:b,c", "about:invalid#zGoSafez", "&", "a&b:c", "(", "a(b", ":", ""}
	seps := []string{",", " , ", " ,", ", ", ",,", " ", "\n,\t"}
	idx := 0
	for _, u1 := range urls {
		for _, d1 := range descs {
			idx++
			if !c.Mine(idx) {
				continue
			}
			check(c, u1+" "+d1)
			for _, u2 := range urls {
				for _, sp := range seps {
					check(c, u1+" "+d1+sp+u2)
					check(c, u2+sp+u1+" "+d1)
					check(c, "/ok 1x"+sp+u1+" "+d1+sp+u2+" 2x")
				}
			}
		}
	}
	for bi, n := range gen.BoundaryLens() {
		if !c.Mine(bi) {
			continue
		}
		for _, pad := range []string{"a", " ", ",", "\t", "1"} {
			p := gen.Pad(pad, n)
			check(c, p+" 1x, javascript:alert(1)")
			check(c, p+"javascript:alert(1) 2x")
			check(c, "/ok 1x,"+p+" javascript&colon;x")
			check(c, p+"/x "+gen.Pad("1", n)+"x, /y")
		}
	}
	// soup
	atoms := append([]string{}, urls...)
	atoms = append(atoms, descs...)
	atoms = append(atoms, " ", " ", ",", ",", "\t", "\n", "\f", "\r", "(", ")", "%2c", "%2C", ":", "&")
	r := c.Rng("soup")
	for i := 0; i < c.N(600000, 8000000)/c.NShards; i++ {
		var s string
		if r.Intn(4) == 0 {
			s = gen.Mutate(r, gen.Soup(r, atoms, r.Intn(10)), gen.URLAtoms)
		} else {
			s = gen.Soup(r, atoms, r.Intn(14))
		}
		if len(s) > 200 {
			s = s[:200]
		}
		check(c, s)
		if i < 3 {
			c.Sample(map[string]string{"input": util.Q(s), "output": util.Q(safehtml.URLSetSanitized(s).String())})
		}
	}
}
