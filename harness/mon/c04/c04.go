// Package c04 monitors "the sanitization policy is default-deny and never weaker than the
// reviewed policy" (C04).
package c04

import (
	"encoding/json"
	"fmt"
	"os"
	"path/filepath"
	"regexp"
	"strings"

	"github.com/google/safehtml"
	uc "github.com/google/safehtml/uncheckedconversions"

	"verif/core"
	"verif/oracle/htmltok"
	"verif/tx"
	"verif/util"
)

type policy struct {
	ElementContent map[string]string            `json:"element_content"`
	VoidOK         []string                     `json:"allowed_void_elements"`
	Global         map[string]string            `json:"global_attributes"`
	Specific       map[string]map[string]string `json:"element_specific_attributes"`
	Enums          map[string][]string          `json:"enum_words"`
	RelOK          []string                     `json:"link_rel_values_allowing_plain_urls"`
	void           map[string]bool
	rel            map[string]bool
}

var pol *policy

func loadPolicy() *policy {
	if pol != nil {
		return pol
	}
	root := os.Getenv("VERIF_ROOT")
	if root == "" {
		root = "/verif"
	}
	b, err := os.ReadFile(filepath.Join(root, "policy", "reviewed_policy.json"))
	if err != nil {
		panic(err)
	}
	p := &policy{}
	if err := json.Unmarshal(b, p); err != nil {
		panic(err)
	}
	p.void, p.rel = map[string]bool{}, map[string]bool{}
	for _, v := range p.VoidOK {
		p.void[v] = true
	}
	for _, v := range p.RelOK {
		p.rel[v] = true
	}
	pol = p
	return p
}

var dataAttr = regexp.MustCompile(`^data-[a-z_][-a-z0-9_]*$`)

// attrClass is the class the reviewed policy prescribes for (element, attribute); rel is
// the static rel value for link elements ("" if none).
func (p *policy) attrClass(elem, attr, rel string) string {
	elem, attr = strings.ToLower(elem), strings.ToLower(attr)
	if elem == "link" && attr == "href" {
		toks := strings.Fields(strings.ToLower(rel))
		all := len(toks) > 0
		for _, t := range toks {
			if !p.rel[t] {
				all = false
			}
		}
		if all {
			return "TrustedResourceURLOrURL"
		}
	}
	if dataAttr.MatchString(attr) {
		return "None"
	}
	if c, ok := p.Specific[attr][elem]; ok {
		return c
	}
	if c, ok := p.Global[attr]; ok {
		if _, ok := p.ElementContent[elem]; ok || p.void[elem] {
			return c
		}
	}
	return "Reject"
}

// htmlVoid lists the void elements: text that follows their start tag is not their content.
var htmlVoid = map[string]bool{"area": true, "base": true, "br": true, "col": true, "embed": true, "hr": true, "img": true, "input": true, "keygen": true, "link": true, "meta": true, "param": true, "source": true, "track": true, "wbr": true}

func (p *policy) contentClass(elem string) string {
	if htmlVoid[strings.ToLower(elem)] {
		return "HTML" // the action is in the content of the parent (here: top level)
	}
	if c, ok := p.ElementContent[strings.ToLower(elem)]; ok {
		return c
	}
	return "Reject"
}

type kase struct {
	Template string `json:"template_quoted"`
	Class    string `json:"policy_class"`
	Attr     string `json:"attribute,omitempty"`
}

// ---- probes

type probe struct {
	name string
	val  func() interface{}
	str  string // contents
	typ  string // "" for plain
}

var probes = []probe{
	{"plain-js-url", nil, "javascript:alert(1)", ""},
	{"plain-text", nil, "a b\"<c>&'d", ""},
	{"plain-word", nil, "zQz", ""},
	{"plain-https", nil, "https://example.com/p?q=1", ""},
	{"plain-async", nil, "async", ""}, {"plain-auto", nil, "auto", ""}, {"plain-ltr", nil, "ltr", ""}, {"plain-rtl", nil, "rtl", ""}, {"plain-eager", nil, "eager", ""}, {"plain-lazy", nil, "lazy", ""}, {"plain-_blank", nil, "_blank", ""}, {"plain-_self", nil, "_self", ""},
	{"plain-LTR", nil, "LTR", ""}, {"plain-_top", nil, "_top", ""},
	{"HTML", func() interface{} { return uc.HTMLFromStringKnownToSatisfyTypeContract("<b>x</b>") }, "<b>x</b>", "HTML"},
	{"Script", func() interface{} { return uc.ScriptFromStringKnownToSatisfyTypeContract("alert(1)") }, "alert(1)", "Script"},
	{"Style", func() interface{} { return uc.StyleFromStringKnownToSatisfyTypeContract("color:red;") }, "color:red;", "Style"},
	{"StyleSheet", func() interface{} { return uc.StyleSheetFromStringKnownToSatisfyTypeContract("a{}") }, "a{}", "StyleSheet"},
	{"URL", func() interface{} { return uc.URLFromStringKnownToSatisfyTypeContract("http://u/") }, "http://u/", "URL"},
	{"TrustedResourceURL", func() interface{} { return uc.TrustedResourceURLFromStringKnownToSatisfyTypeContract("https://t/x.js") }, "https://t/x.js", "TrustedResourceURL"},
	{"Identifier", func() interface{} { return uc.IdentifierFromStringKnownToSatisfyTypeContract("id1") }, "id1", "Identifier"},
	{"HTML-js", func() interface{} { return uc.HTMLFromStringKnownToSatisfyTypeContract("javascript:alert(1)") }, "javascript:alert(1)", "HTML"},
	{"Identifier-js", func() interface{} { return uc.IdentifierFromStringKnownToSatisfyTypeContract("javascript:alert(1)") }, "javascript:alert(1)", "Identifier"},
}

var _ = safehtml.InnocuousURL

const (
	rVerbatim = iota
	rEscaped
	rInnocuous
	rError
)

var rankNames = []string{"verbatim", "escaped/normalised", "replaced by the innocuous value", "error"}

// required returns the minimum rank the reviewed class demands for a probe.
func required(p *policy, class string, pr probe) int {
	plain := pr.typ == ""
	switch class {
	case "Reject":
		return rError
	case "None":
		return rVerbatim
	case "TrustedResourceURL", "Identifier", "Style", "Script", "StyleSheet", "HTMLValOnly":
		own := class
		if class == "HTMLValOnly" {
			own = "HTML"
		}
		if !plain && pr.typ == own {
			return rVerbatim
		}
		return rError
	case "URL", "TrustedResourceURLOrURL":
		if pr.typ == "URL" || class == "TrustedResourceURLOrURL" && pr.typ == "TrustedResourceURL" {
			return rVerbatim
		}
		if pr.str == "javascript:alert(1)" {
			return rInnocuous
		}
		if pr.name == "plain-text" {
			return rEscaped // must be normalised
		}
		return rVerbatim
	case "URLSet":
		if pr.str == "javascript:alert(1)" {
			return rInnocuous
		}
		return rVerbatim
	case "HTML":
		if pr.typ == "HTML" {
			return rVerbatim
		}
		if strings.ContainsAny(pr.str, "<>&\"'") {
			return rEscaped
		}
		return rVerbatim
	case "RCDATA":
		if strings.ContainsAny(pr.str, "<>&\"'") {
			return rEscaped
		}
		return rVerbatim
	}
	if words, ok := p.Enums[class]; ok {
		for _, w := range words {
			if pr.str == w {
				return rVerbatim
			}
		}
		return rError
	}
	return rError // unknown class in the policy file: be strict
}

// observe executes the cell template with the probe and ranks the outcome.
func observe(text string, attr string, pr probe) (rank int, out string, ok bool) {
	var data interface{} = pr.str
	if pr.val != nil {
		data = pr.val()
	}
	r := tx.Run(text, map[string]interface{}{"V": data, "C": true, "NC": false, "L": []int{1}, "L2": []int{1, 2}})
	if r.Panic != nil || r.ParseErr != nil {
		return 0, "", false
	}
	if r.ExecErr != nil {
		return rError, r.Out, true
	}
	// locate the emitted value
	var emitted string
	if attr != "" {
		res := htmltok.Tokenize(r.Out, htmltok.Options{})
		found := false
		for i := range res.Tokens {
			tk := &res.Tokens[i]
			if tk.Type != htmltok.StartTag {
				continue
			}
			for _, a := range tk.Attrs {
				if a.Name == strings.ToLower(attr) && !found {
					emitted = htmltok.DecodeAttrValue(a.Value)
					found = true
				}
			}
		}
		if !found {
			// the attribute did not survive as written (e.g. the element name swallowed it): treat the
			// raw output as what was emitted
			emitted = r.Out
		}
	} else {
		emitted = r.Out
	}
	switch {
	case strings.Contains(emitted, "about:invalid#zGoSafez") || strings.Contains(emitted, "zGoSafezInvalidPropertyValue"):
		return rInnocuous, r.Out, true
	case attr != "" && strings.Contains(emitted, pr.str):
		return rVerbatim, r.Out, true
	case attr == "" && strings.Contains(r.Out, pr.str):
		return rVerbatim, r.Out, true
	}
	return rEscaped, r.Out, true
}

func init() {
	core.Register(&core.Monitor{
		ID:    "C04",
		Level: "exploration",
		Rule: fmt.Sprintf("cells: %d element names (HTML current/obsolete, SVG, MathML, custom, odd) x %d attribute names (HTML attributes, on* handlers, data-*, aria-*, namespaced, mixed case, unknown) x {\", '} plus element-content cells, link rel values, unquoted values, actions in attribute/tag names, static partial values, conditional element and attribute names; ", len(elements), len(attributes)) +
			"each cell template is executed with a probe vector (plain strings incl. a javascript: URL, every enum word, a non-word, one value of each safe type) and every outcome is ranked verbatim < escaped/normalised < innocuous < error; the observed rank must be at least the rank the reviewed policy file prescribes for the cell's class. quick: all listed pairs + a seeded sample of the rest of the product; thorough: the full product. " +
			"non-trivial = every (cell, probe) execution; distinct by (template, probe)",
		Assumptions: []string{"policy/reviewed_policy.json is the reviewed policy (data, committed); class semantics (minimum outcome per probe) are coded in the monitor from the property text", "oracle: htmltok + DecodeAttrValue to read the emitted attribute value"},
		Run:         run,
		Replay:      replay,
		MinDistinct: func(string) int64 { return 50000 },
	})
}

func replay(c *core.Ctx, raw json.RawMessage) error {
	var k kase
	if err := json.Unmarshal(raw, &k); err != nil {
		return err
	}
	checkCell(c, util.Unq(k.Template), k.Attr, k.Class)
	return nil
}

// checkCell runs the probe vector on one cell template (which uses {{.V}}).
func checkCell(c *core.Ctx, text, attr, class string) {
	p := loadPolicy()
	k := kase{Template: util.Q(text), Class: class, Attr: attr}
	for _, pr := range probes {
		c.Eval(1)
		rank, out, ok := observe(text, attr, pr)
		if !ok {
			c.Count("skipped", 1)
			continue
		}
		c.DistinctS(text, pr.name)
		req := required(p, class, pr)
		if rank < req {
			c.Violation(k, "cell %s (reviewed class %s), probe %s %+q: outcome %q (%s), the reviewed policy demands at least %q", text, class, pr.name, pr.str, out, rankNames[rank], rankNames[req])
			return
		}
	}
	c.Hist("classes", class)
}

func attrCell(elem, attr, q, rel string) string {
	relAttr := ""
	if rel != "" {
		relAttr = ` rel="` + rel + `"`
	}
	return "<" + elem + relAttr + " " + attr + "=" + q + "{{.V}}" + q + ">"
}

func run(c *core.Ctx) {
	p := loadPolicy()
	idx := 0
	listed := func(e, a string) bool { return p.attrClass(e, a, "") != "Reject" }
	r := c.SharedRng("sample")
	// 1. attribute cells
	for _, e := range elements {
		for _, a := range attributes {
			isListed := listed(e, a)
			pick := isListed || c.Thorough() || r.Intn(10) == 0
			for qi, q := range []string{`"`, `'`} {
				idx++
				if !pick || !c.Mine(idx) {
					continue
				}
				if !isListed && qi == 1 && !c.Thorough() {
					continue
				}
				checkCell(c, attrCell(e, a, q, ""), a, p.attrClass(e, a, ""))
			}
		}
	}
	if c.Thorough() {
		c.SetExhaustive("element x attribute x quoting product")
	}
	c.SetExhaustive("all (element, attribute) pairs listed in the reviewed policy x quoting")
	// 2. element content cells
	for _, e := range elements {
		idx++
		if !c.Mine(idx) {
			continue
		}
		checkCell(c, "<"+e+">{{.V}}</"+e+">", "", p.contentClass(e))
		checkCell(c, "<"+strings.ToUpper(e)+" title=\"x\">a{{.V}}", "", p.contentClass(e))
		// a slash before '>' does not make a non-void element empty
		checkCell(c, "<"+e+"/>{{.V}}</"+e+">", "", p.contentClass(e))
		checkCell(c, "<"+e+" lang=\"en\" />{{.V}}", "", p.contentClass(e))
	}
	checkCell(c, "{{.V}}", "", "HTML")
	// 3. link rel
	rels := []string{"", "stylesheet", "icon", "alternate", "alternate stylesheet", "stylesheet alternate", "ICON", "icon icon", "preload", "preload stylesheet", "import", "manifest", "modulepreload", "x", "icon x", "author help", "dns-prefetch", "icon\tstylesheet", "style&#115;heet", "&#105;con", "prefetch prerender subresource"}
	for _, rel := range rels {
		for _, q := range []string{`"`, `'`} {
			idx++
			if !c.Mine(idx) {
				continue
			}
			dec := htmltok.DecodeAttrValue(rel)
			checkCell(c, attrCell("link", "href", q, rel), "href", p.attrClass("link", "href", dec))
			checkCell(c, "<link href="+q+"{{.V}}"+q+" rel=\""+rel+"\">", "href", p.attrClass("link", "href", ""))
			checkCell(c, "<link rel=\"stylesheet\" rel=\""+rel+"\" href="+q+"{{.V}}"+q+">", "href", "TrustedResourceURL")
			checkCell(c, "<link rel=\"{{if .C}}"+rel+"{{else}}stylesheet{{end}}\" href="+q+"{{.V}}"+q+">", "href", "TrustedResourceURL")
		}
	}
	// 4. positions that must always fail, for every listed pair
	for _, e := range elements {
		for _, a := range attributes {
			if !listed(e, a) {
				continue
			}
			idx++
			if !c.Mine(idx) {
				continue
			}
			checkCell(c, "<"+e+" "+a+"={{.V}}>", a, "Reject")
			checkCell(c, "<"+e+" "+a+"=x{{.V}}>", a, "Reject")
			cl := p.attrClass(e, a, "")
			if _, isEnum := p.Enums[cl]; isEnum {
				checkCell(c, "<"+e+" "+a+"=\"x{{.V}}\">", a, "Reject")
				checkCell(c, "<"+e+" "+a+"=\"ltr {{.V}}\">", a, "Reject")
				checkCell(c, "<"+e+" "+a+"=\"{{.V}}x\">", a, "Reject")
				checkCell(c, "<"+e+" "+a+"='{{.V}} y'>", a, "Reject")
				checkCell(c, "<"+e+" "+a+"=\"{{.V}}{{.V}}\">", a, "Reject")
				checkCell(c, "<"+e+" "+a+"=\"{{if .C}}{{else}}x{{end}}{{.V}}\">", a, "Reject")
				checkCell(c, "<"+e+" "+a+"=\"{{if .C}}{{.V}}{{else}}x{{end}}y\">", a, "Reject")
				checkCell(c, "<"+e+" "+a+"=\"{{if .NC}}x{{else}}{{.V}}{{end}}y\">", a, "Reject")
				checkCell(c, "<"+e+" "+a+"=\"{{if .NC}}x{{else}}{{end}}{{.V}}\">", a, "Reject")
				checkCell(c, "<"+e+" "+a+"='{{if .C}}{{.V}}t{{else}}x{{end}}y'>", a, "Reject")
			}
		}
	}
	for i, e := range elements {
		if !c.Mine(i) {
			continue
		}
		checkCell(c, "<"+e+" {{.V}}=\"x\">", "", "Reject")
		checkCell(c, "<"+e+" data-{{.V}}=\"x\">", "", "Reject")
		checkCell(c, "<"+e+" title=\"x\" {{.V}}>", "", "Reject")
		checkCell(c, "<"+e+"{{.V}} title=\"x\">", "", "Reject")
		checkCell(c, "<"+e+" title{{.V}}=\"x\">", "", "Reject")
		// attribute name present on one branch only
		checkCell(c, "<"+e+" {{if .C}}title{{end}}=\"{{.V}}\">", "", "Reject")
		checkCell(c, "<"+e+" {{if .C}}{{else}}title{{end}}='{{.V}}'>", "", "Reject")
		checkCell(c, "<"+e+" {{with .C}}href{{end}}={{.V}}>", "", "Reject")
	}
	// 5. conditional element / attribute names: at least as strict as both alternatives
	stricter := func(a, b string) []string { return []string{a, b} }
	_ = stricter
	condElems := []string{"a", "area", "img", "audio", "input", "script", "iframe", "link", "div", "p", "form", "button", "video", "source", "foo", "object", "base", "embed"}
	condAttrs := []string{"href", "src", "title", "id", "style", "dir", "target", "action", "formaction", "srcset", "srcdoc", "onclick", "data-x", "lang", "name", "unknown", "alt", "loading"}
	for _, e1 := range condElems {
		for _, e2 := range condElems {
			for _, a := range condAttrs {
				idx++
				if !c.Mine(idx) {
					continue
				}
				text := "{{if .C}}<" + e1 + "{{else}}<" + e2 + "{{end}} " + a + "=\"{{.V}}\">"
				c1, c2 := p.attrClass(e1, a, ""), p.attrClass(e2, a, "")
				checkCell(c, text, a, c1)
				checkCell(c, text, a, c2)
				// a second, unrelated branch between the conditional name and the action must not
				// make the engine forget the alternatives
				text2 := "{{if .C}}<" + e1 + "{{else}}<" + e2 + "{{end}} {{if .C}}lang=\"x\"{{end}} " + a + "=\"{{.V}}\">"
				checkCell(c, text2, a, c1)
				checkCell(c, text2, a, c2)
				text3 := "{{if .C}}<" + e1 + "{{else}}<" + e2 + "{{end}}{{with .C}} {{end}}{{range .L}} lang=\"y\"{{end}} " + a + "='{{.V}}'>"
				checkCell(c, text3, a, c1)
				checkCell(c, text3, a, c2)
			}
		}
	}
	for _, e := range condElems {
		for _, a1 := range condAttrs {
			for _, a2 := range condAttrs {
				idx++
				if !c.Mine(idx) || a1 == a2 {
					continue
				}
				text := "<" + e + " {{if .C}}" + a1 + "{{else}}" + a2 + "{{end}}=\"{{.V}}\">"
				checkCell(c, text, a1, p.attrClass(e, a1, ""))
				text2 := "<" + e + " {{if .C}}" + a2 + "{{else}}" + a1 + "{{end}}=\"{{.V}}\">"
				checkCell(c, text2, a2, p.attrClass(e, a1, ""))
				text3 := "<" + e + " {{if .C}}" + a1 + "{{else}}" + a2 + "{{end}}{{if .C}}{{end}}{{with .C}}{{end}}=\"{{.V}}\">"
				checkCell(c, text3, a1, p.attrClass(e, a1, ""))
				checkCell(c, text3, a1, p.attrClass(e, a2, ""))
			}
		}
	}
	for _, e1 := range condElems {
		for _, e2 := range condElems {
			idx++
			if !c.Mine(idx) {
				continue
			}
			text := "{{if .C}}<" + e1 + ">{{else}}<" + e2 + ">{{end}}{{.V}}"
			checkCell(c, text, "", p.contentClass(e1))
			checkCell(c, text, "", p.contentClass(e2))
		}
	}
	// three-way chains whose first and last branch choose the same name, nested joins, and
	// alternatives whose last branch is a void element
	chainElems := []string{"b", "a", "script", "style", "iframe", "object", "img", "input", "textarea", "link", "p"}
	chainAttrs := []string{"title", "href", "src", "srcdoc", "onclick", "style", "id", "dir", "srcset"}
	for _, e1 := range chainElems {
		for _, e2 := range chainElems {
			idx++
			if !c.Mine(idx) || e1 == e2 {
				continue
			}
			for _, a := range chainAttrs {
				c1, c2 := p.attrClass(e1, a, ""), p.attrClass(e2, a, "")
				for _, text := range []string{
					"{{if .NC}}<" + e1 + "{{else if .C}}<" + e2 + "{{else}}<" + e1 + "{{end}} " + a + "=\"{{.V}}\">",
					"{{with .NC}}<" + e1 + "{{else}}{{if .C}}<" + e2 + "{{else}}<" + e1 + "{{end}}{{end}} " + a + "='{{.V}}'>",
					"{{if .C}}{{if .C}}<" + e2 + "{{else}}<" + e1 + "{{end}}{{else}}<" + e2 + "{{end}} " + a + "=\"{{.V}}\">",
				} {
					checkCell(c, text, a, c1)
					checkCell(c, text, a, c2)
				}
			}
			for _, text := range []string{
				"{{if .NC}}<" + e1 + "{{else if .C}}<" + e2 + "{{else}}<" + e1 + "{{end}}>{{.V}}",
				"{{if .C}}<" + e2 + "{{else}}<" + e1 + "{{end}}>{{.V}}",
				"{{if .C}}<" + e2 + "{{else}}<" + e1 + "{{end}} title=\"x\">{{.V}}",
			} {
				checkCell(c, text, "", p.contentClass(e1))
				checkCell(c, text, "", p.contentClass(e2))
			}
		}
	}
	for _, e := range []string{"a", "p", "iframe", "img", "b"} {
		for _, a1 := range chainAttrs {
			for _, a2 := range chainAttrs {
				idx++
				if !c.Mine(idx) || a1 == a2 {
					continue
				}
				for _, text := range []string{
					"<" + e + " {{if .NC}}" + a1 + "{{else if .C}}" + a2 + "{{else}}" + a1 + "{{end}}=\"{{.V}}\">",
					"<" + e + " {{with .NC}}" + a1 + "{{else}}{{if .C}}" + a2 + "{{else}}" + a1 + "{{end}}{{end}}='{{.V}}'>",
				} {
					checkCell(c, text, a2, p.attrClass(e, a1, ""))
					checkCell(c, text, a2, p.attrClass(e, a2, ""))
				}
			}
		}
	}
	// elements that enclose other markup, comments inside them, rel attributes whose name is not
	// certain, alternatives between raw-text and ordinary elements followed by static markup
	for i, cell := range [][3]string{
		{`<object><!---->{{.V}}</object>`, "", "Reject"}, {`<svg><!-- c -->{{.V}}</svg>`, "", "Reject"}, {`<xmp><!-- c -->{{.V}}</xmp>`, "", "Reject"},
		{`<object><b></b>{{.V}}</object>`, "", "Reject"}, {`<object><b>{{.V}}</b></object>`, "", "Reject"}, {`<object><br>{{.V}}</object>`, "", "Reject"}, {`<svg><g><text>{{.V}}</text></g></svg>`, "", "Reject"},
		{`<link r{{/**/}}el="stylesheet" rel="icon" href="{{.V}}">`, "href", "TrustedResourceURL"}, {`<link {{if .C}}r{{end}}el="stylesheet" rel="icon" href="{{.V}}">`, "href", "TrustedResourceURL"},
		{`<link {{if .C}}title{{else}}rel{{end}}="icon" rel="stylesheet" href="{{.V}}">`, "href", "TrustedResourceURL"}, {`<link {{if .NC}}title{{else}}rel{{end}}="stylesheet" rel="icon" href="{{.V}}">`, "href", "TrustedResourceURL"},
		{`<link /rel="stylesheet" rel="icon" href="{{.V}}">`, "href", "TrustedResourceURL"}, {`<link x/rel="stylesheet" rel="icon" href="{{.V}}">`, "href", "TrustedResourceURL"},
		{`{{if .C}}<script{{else}}<div{{end}}>static</div><p>{{.V}}</p>`, "", "Script"}, {`{{if .C}}<script{{else}}<div{{end}}><br>{{.V}}`, "", "Script"}, {`{{if .C}}<script>{{else}}<title>{{end}}//</title> {{.V}}</script>`, "", "Script"},
		{`<s{{/**/}}cript><b>{{.V}}</b></script>`, "", "Script"}, {`<s{{/**/}}cript><!---->{{.V}}</script>`, "", "Script"}, {`<s{{/**/}}tyle><i title="{{.V}}">x</i></style>`, "", "StyleSheet"},
		{`<script </script>{{.V}}</script>`, "", "Script"}, {`<style </style>{{.V}}</style>`, "", "StyleSheet"},
		{`<meta http-equiv="refresh" content="{{.V}}">`, "content", "Reject"}, {`<meta name="description" content="{{.V}}">`, "content", "Reject"}, {`<meta content='{{.V}}'>`, "content", "Reject"},
		{`<base href="{{.V}}">`, "href", "Reject"}, {`<a ping="{{.V}}">x</a>`, "ping", "Reject"}, {`<object data="{{.V}}"></object>`, "data", "Reject"}, {`<embed src="{{.V}}">`, "src", "Reject"},
		{`<svg><use href="{{.V}}"></use></svg>`, "href", "Reject"}, {`<svg><a xlink:href="{{.V}}">x</a></svg>`, "xlink:href", "Reject"}, {`<math href="{{.V}}">x</math>`, "href", "Reject"},
		{`<body background="{{.V}}">`, "background", "Reject"}, {`<html manifest="{{.V}}">`, "manifest", "Reject"}, {`<applet codebase="{{.V}}">`, "codebase", "Reject"}, {`<img usemap="{{.V}}">`, "usemap", "Reject"},
		{`<form target="x" formtarget="{{.V}}">`, "formtarget", "Reject"}, {`<link imagesrcset="{{.V}}">`, "imagesrcset", "Reject"}, {`<svg><set attributeName="href" to="{{.V}}"/></svg>`, "to", "Reject"},
		{`<script type="text/plain">{{.V}}</script>`, "", "Script"}, {`<script type="application/json">{{.V}}</script>`, "", "Script"}, {`<script type="text/javascript" type="text/plain">{{.V}}</script>`, "", "Script"},
		{`<script type="text/&#106;avascript">{{.V}}</script>`, "", "Script"}, {`<script type="text/java{{/**/}}script">{{.V}}</script>`, "", "Script"}, {`<script type{{/**/}}x="text/plain">{{.V}}</script>`, "", "Script"},
		{`<script {{if .C}}title{{else}}type{{end}}="text/plain">{{.V}}</script>`, "", "Script"}, {`<script type="module">{{.V}}</script>`, "", "Script"}, {`<script type="">{{.V}}</script>`, "", "Script"},
		// the same (element, attribute) pair twice in one template, sanitized differently because of another attribute
		{`<link rel="icon" href="{{.V}}"><link rel="stylesheet" href="{{.V}}">`, "href", "TrustedResourceURL"}, {`<link href="{{.V}}"><link rel="stylesheet" href="{{.V}}">`, "href", "TrustedResourceURL"},
		{`{{define "l"}}<link rel="icon" href="{{.}}">{{end}}{{template "l" .V}}<link rel="stylesheet" href="{{.V}}">`, "href", "TrustedResourceURL"}, {`<link rel="icon" title="/y"><link rel="stylesheet" href="{{.V}}"><link rel="icon" title="/z">`, "href", "TrustedResourceURL"},
		{`<link rel="stylesheet" title="/s.css"><link rel="icon" href="{{.V}}">`, "href", "TrustedResourceURLOrURL"}, {`<script type="text/plain">x</script><script>{{.V}}</script>`, "", "Script"},
		{`<p.x>{{.V}}</p.x>`, "", "Reject"}, {`<a_b href="{{.V}}">`, "", "Reject"}, {`<p.=""title="{{.V}}">`, "", "Reject"},
	} {
		if c.Mine(i) {
			checkCell(c, cell[0], cell[1], cell[2])
		}
	}
	c.Sample(kase{Template: util.Q(attrCell("a", "href", `"`, "")), Class: "TrustedResourceURLOrURL", Attr: "href"})
	c.Sample(kase{Template: util.Q(attrCell("script", "src", `'`, "")), Class: "TrustedResourceURL", Attr: "src"})
	c.Sample(kase{Template: util.Q(attrCell("svg", "onload", `"`, "")), Class: "Reject", Attr: "onload"})
}
