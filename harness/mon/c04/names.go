package c04

import "strings"

func f(s string) []string { return strings.Fields(s) }

// Element name universe: HTML (current and obsolete), SVG, MathML, custom and odd names.
var elements = f(`a abbr acronym address applet area article aside audio b base basefont bdi bdo bgsound big blink blockquote body br button canvas caption center cite code col colgroup
command content data datalist dd del details dfn dialog dir div dl dt element em embed fieldset figcaption figure font footer form frame frameset h1 h2 h3 h4 h5 h6 head header hgroup hr html i iframe
image img input ins isindex kbd keygen label legend li link listing main map mark marquee menu menuitem meta meter multicol nav nextid nobr noembed noframes noscript object ol optgroup option output p
param picture plaintext pre progress q rb rp rt rtc ruby s samp script search section select shadow slot small source spacer span strike strong style sub summary sup table tbody td template textarea
tfoot th thead time title tr track tt u ul var video wbr xmp
svg g path rect circle ellipse line polyline polygon text tspan textpath defs symbol use foreignobject desc metadata lineargradient radialgradient stop pattern clippath mask filter feblend fegaussianblur feimage animate animatemotion animatetransform set switch view marker mpath
math mi mn mo ms mtext mrow mfrac msqrt mroot mstyle merror mpadded mphantom mfenced menclose msub msup msubsup munder mover munderover mtable mtr mtd maction semantics annotation annotation-xml
x-foo my-element a-b x:y svg:a xlink h7 blink2 foo imaginaryelement customelement a1 z`)

// Attribute name universe: HTML attributes, event handlers, data-*, aria-*, namespaced,
// upper/mixed case and unknown names.
var attributes = f(`abbr accept accept-charset accesskey action align alink allow allowfullscreen alt archive as async autocapitalize autocomplete autocorrect autofocus autoplay axis background behavior bgcolor border
bottommargin cellpadding cellspacing challenge char charoff charset checked cite class classid clear code codebase codetype color cols colspan compact content contenteditable contextmenu controls controlslist coords crossorigin
data datetime declare default defer dir direction dirname disabled download draggable dropzone enctype enterkeyhint face for form formaction formenctype formmethod formnovalidate formtarget frame frameborder
headers height hidden high href hreflang hspace http-equiv icon id imagesizes imagesrcset inert inputmode integrity is ismap itemid itemprop itemref itemscope itemtype keytype kind label lang language
leftmargin link list loading longdesc loop low lowsrc manifest marginheight marginwidth max maxlength media method min minlength multiple muted name nohref nomodule nonce noresize noshade novalidate nowrap
object open optimum pattern ping placeholder playsinline popover popovertarget poster preload profile prompt radiogroup readonly referrerpolicy rel required rev reversed rightmargin role rows rowspan rules
sandbox scheme scope scrolling selected shape size sizes slot span spellcheck src srcdoc srclang srcset standby start step style summary tabindex target text title topmargin translate truespeed type
typemustmatch usemap valign value valuetype version vlink vspace width wrap
onabort onafterprint onanimationend onanimationiteration onanimationstart onauxclick onbeforecopy onbeforecut onbeforeinput onbeforepaste onbeforeprint onbeforeunload onblur oncancel oncanplay oncanplaythrough
onchange onclick onclose oncontextmenu oncopy oncuechange oncut ondblclick ondrag ondragend ondragenter ondragleave ondragover ondragstart ondrop ondurationchange onemptied onended onerror onfocus
onfocusin onfocusout onformdata onhashchange oninput oninvalid onkeydown onkeypress onkeyup onlanguagechange onload onloadeddata onloadedmetadata onloadstart onmessage onmousedown onmouseenter onmouseleave
onmousemove onmouseout onmouseover onmouseup onmousewheel onoffline ononline onpagehide onpageshow onpaste onpause onplay onplaying onpointerdown onpointermove onpointerup onpopstate onprogress
onratechange onreset onresize onscroll onsearch onseeked onseeking onselect onshow onstalled onstorage onsubmit onsuspend ontimeupdate ontoggle ontouchstart ontransitionend onunload onvolumechange
onwaiting onwheel on onx ONCLICK OnClick
data-x data-foo data-foo-bar data-foo_bar data-_x data-a1 data- data-1 data-X data-é data--x data-x.y data-x:y data-onclick DATA-X Data-Foo
aria-activedescendant aria-atomic aria-autocomplete aria-busy aria-checked aria-controls aria-current aria-describedby aria-disabled aria-dropeffect aria-expanded aria-flowto aria-grabbed aria-haspopup
aria-hidden aria-invalid aria-label aria-labelledby aria-level aria-live aria-multiline aria-multiselectable aria-orientation aria-owns aria-posinset aria-pressed aria-readonly aria-relevant aria-required
aria-selected aria-setsize aria-sort aria-valuemax aria-valuemin aria-valuenow aria-valuetext aria-unknown ARIA-LABEL
xlink:href xlink:title xml:lang xml:base xmlns xmlns:xlink HREF Src STYLE Id Title
unknown foo bar x y z attributename fill stroke d viewbox transform points offset values from to begin dur mathvariant encoding definitionurl`)
