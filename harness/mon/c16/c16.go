// Package c16 monitors CSSRule (property C16).
package c16

import (
	"encoding/json"
	"strings"

	"github.com/google/safehtml"

	"verif/core"
	"verif/gen"
	"verif/oracle/csssyn"
	"verif/util"
)

type kase struct {
	Selector string              `json:"selector_quoted"`
	Style    map[string][]string `json:"style_fields_quoted,omitempty"` // StyleFromProperties fields
	Const    string              `json:"style_constant_quoted,omitempty"`
}

func init() {
	core.Register(&core.Monitor{
		ID:    "C16",
		Level: "exploration",
		Rule: "inputs: selectors from a grammar of valid selectors mutated with a token soup mixing quotes, brackets, url( and other function-like tokens, escapes, newlines, form feeds, comment markers, '<', '{', '}', ';', '@'; every corpus selector; pairs of atoms; styles from StyleFromProperties and StyleFromConstant; " +
			"accepted results parsed with an independent CSS Syntax Level 3 stylesheet parser; non-trivial = selector contains a quote, bracket, backslash, brace, ';', '@', '/' or newline; distinct by (selector, style)",
		Assumptions: []string{"oracle: csssyn (own CSS Syntax Level 3 tokenizer and 'parse a stylesheet'), self-tested"},
		Run:         run,
		Replay:      replay,
		MinDistinct: func(string) int64 { return 20000 },
	})
}

type styleSpec struct {
	fields map[string][]string
	konst  string
}

func (s styleSpec) build() (st safehtml.Style, ok bool) {
	if s.konst != "" {
		p := core.Recover(func() {
			st = util.CallConst(safehtml.StyleFromConstant, s.konst)[0].Interface().(safehtml.Style)
		})
		return st, p == nil
	}
	var p safehtml.StyleProperties
	for n, v := range s.fields {
		switch n {
		case "BackgroundImageURLs":
			p.BackgroundImageURLs = v
		case "FontFamily":
			p.FontFamily = v
		case "Color":
			p.Color = v[0]
		case "Width":
			p.Width = v[0]
		case "Display":
			p.Display = v[0]
		case "Padding":
			p.Padding = v[0]
		}
	}
	return safehtml.StyleFromProperties(p), true
}

func replay(c *core.Ctx, raw json.RawMessage) error {
	var k kase
	if err := json.Unmarshal(raw, &k); err != nil {
		return err
	}
	ss := styleSpec{konst: util.Unq(k.Const)}
	if len(k.Style) > 0 {
		ss.fields = map[string][]string{}
		for n, v := range k.Style {
			ss.fields[n] = util.Unqs(v)
		}
	}
	check(c, util.Unq(k.Selector), ss)
	return nil
}

func sig(ts []csssyn.Token) string {
	var b strings.Builder
	for _, t := range ts {
		b.WriteString(t.Kind.String())
		b.WriteByte(':')
		b.WriteString(t.Raw)
		b.WriteByte('|')
	}
	return b.String()
}

func check(c *core.Ctx, sel string, ss styleSpec) {
	style, ok := ss.build()
	if !ok {
		return
	}
	c.Eval(1)
	k := kase{Selector: util.Q(sel), Const: ""}
	c.Note(func() interface{} { return k })
	if ss.konst != "" {
		k.Const = util.Q(ss.konst)
	}
	if len(ss.fields) > 0 {
		k.Style = map[string][]string{}
		for n, v := range ss.fields {
			k.Style[n] = util.Qs(v)
		}
	}
	if strings.ContainsAny(sel, "\"'()[]\\{};@/\n\r\f<") {
		c.DistinctS(sel, style.String())
	}
	var res safehtml.StyleSheet
	var err error
	if p := core.Recover(func() { res, err = safehtml.CSSRule(sel, style) }); p != nil {
		c.Violation(k, "CSSRule panicked on selector %+q: %v", sel, p)
		return
	}
	if err != nil {
		c.Count("rejected", 1)
		if res.String() != "" {
			c.Violation(k, "error %q but non-zero StyleSheet %+q", err, res.String())
		}
		return
	}
	c.Count("accepted", 1)
	out := res.String()
	if out != sel+"{"+style.String()+"}" {
		c.Violation(k, "CSSRule(%+q, %+q)=%+q is not selector{style}", sel, style.String(), out)
		return
	}
	// the selector's own tokenisation
	for _, t := range csssyn.Tokenize(sel) {
		bad := ""
		switch t.Kind {
		case csssyn.LBrace, csssyn.RBrace, csssyn.Semicolon, csssyn.AtKeyword, csssyn.Comment, csssyn.BadString, csssyn.BadURL, csssyn.CDO:
			bad = t.Kind.String()
		case csssyn.Delim:
			if t.Value == "<" {
				bad = "'<'"
			}
		}
		if t.Unterminated {
			bad = "unterminated " + t.Kind.String()
		}
		if bad != "" {
			c.Violation(k, "accepted selector %+q contributes the token %s %+q", sel, bad, t.Raw)
			return
		}
	}
	if strings.Contains(sel, "<") {
		c.Violation(k, "accepted selector %+q contains '<'", sel)
		return
	}
	// brackets balanced under the tokenizer
	{
		var stack []csssyn.Kind
		for _, t := range csssyn.Tokenize(sel) {
			switch t.Kind {
			case csssyn.Function, csssyn.LParen:
				stack = append(stack, csssyn.RParen)
			case csssyn.LBracket:
				stack = append(stack, csssyn.RBracket)
			case csssyn.RParen, csssyn.RBracket:
				if len(stack) == 0 || stack[len(stack)-1] != t.Kind {
					c.Violation(k, "accepted selector %+q has an unbalanced %s", sel, t.Kind)
					return
				}
				stack = stack[:len(stack)-1]
			}
		}
		if len(stack) != 0 {
			c.Violation(k, "accepted selector %+q leaves %d bracket(s) open", sel, len(stack))
			return
		}
	}
	// the whole rule
	rules := csssyn.ParseStylesheet(out)
	selToks := trim(noComments(csssyn.Tokenize(sel)))
	if len(selToks) == 0 {
		// An empty (or whitespace-only) selector gives "{...}": a qualified rule with an empty
		// prelude; still exactly one rule.
	}
	if len(rules) != 1 {
		c.Violation(k, "CSSRule(%+q, ...)=%+q parses to %d rules, want 1", sel, out, len(rules))
		return
	}
	r := rules[0]
	if r.At || !r.HasBlock || r.Unclosed {
		c.Violation(k, "CSSRule(%+q, ...)=%+q does not parse to one closed qualified rule (at=%v block=%v unclosed=%v)", sel, out, r.At, r.HasBlock, r.Unclosed)
		return
	}
	if sig(trim(r.Prelude)) != sig(selToks) {
		c.Violation(k, "prelude of %+q is %q, the selector tokenises to %q", out, sig(trim(r.Prelude)), sig(selToks))
		return
	}
	if sig(r.Block) != sig(noComments(csssyn.Tokenize(style.String()))) {
		c.Violation(k, "block of %+q is %q, the style tokenises to %q", out, sig(r.Block), sig(noComments(csssyn.Tokenize(style.String()))))
		return
	}
}

func noComments(ts []csssyn.Token) []csssyn.Token {
	out := ts[:0:0]
	for _, t := range ts {
		if t.Kind != csssyn.Comment {
			out = append(out, t)
		}
	}
	return out
}

func trim(ts []csssyn.Token) []csssyn.Token {
	for len(ts) > 0 && ts[0].Kind == csssyn.Whitespace {
		ts = ts[1:]
	}
	for len(ts) > 0 && ts[len(ts)-1].Kind == csssyn.Whitespace {
		ts = ts[:len(ts)-1]
	}
	return ts
}

var validSelectors = []string{
	"a", "div", "#id", ".cls", "*", "a b", "a > b", "a + b", "a ~ b", "a, b", "a:hover", "a::before", "input[type=text]", "a[href^=http]", "a[href$=pdf]", "a[title~=x]", "a[lang|=en]", "a[x*=y]",
	"a[title=\"x y\"]", "a[title='x']", "li:nth-child(2)", "li:nth-child(2 + 1)", ":not(.a)", "a[data-x=\"]\"]", "a[b=\"{\"]", "a[b=\";\"]", "a[b='\\'']", "a[b=\"\\\"\"]", "x|y", "", " ", "a[b=\"(\"]", ":is(a, b)", "a[b=\"url(\"]",
}

var selAtoms = []string{
	"\"", "'", "(", ")", "[", "]", "{", "}", ";", "@", "<", ">", "\\", "/", "*", "/*", "*/", "\n", "\r", "\f", "\t", " ", ",", ".", "#", ":", "=", "^", "$", "|", "~", "+", "-", "_",
	"url(", "URL(", "Url(", "url(x)", "url(\"x\")", "url('", "url(\"", "u\\72l(", "url\\(", "local(", "not(", "is(", "nth-child(", "expression(", "-->", "<!--", "@import", "\\\"", "\\'", "\\\n", "\\29 ", "\\)", "\\]",
	"a", "b", "x", "input", "value", "0", "9", "é", "\xff", "\x00", "\u0080", " ", "{}", "a{b:c}", "}x{", "x\"){}y{\"", "){}", "\"){}input[value^=a]{background:url(//evil/a)}z{\"y",
}

var styles = []styleSpec{
	{fields: map[string][]string{"Color": {"red"}}},
	{fields: map[string][]string{"Width": {"1px"}, "Display": {"block"}}},
	{fields: map[string][]string{"BackgroundImageURLs": {"http://x/\"a)b"}}},
	{fields: map[string][]string{"FontFamily": {"Times New Roman", "a\"b}c"}}},
	{fields: map[string][]string{}},
	{konst: "color:red;"},
	{konst: "background:url('http://x/y');"},
	{konst: "content:\"}\";"},
}

func run(c *core.Ctx) {
	idx := 0
	for _, s := range validSelectors {
		for _, st := range styles {
			idx++
			if c.Mine(idx) {
				check(c, s, st)
			}
		}
	}
	// pairs and triples of atoms
	for _, a := range selAtoms {
		for _, b := range selAtoms {
			idx++
			if !c.Mine(idx) {
				continue
			}
			check(c, a+b, styles[idx%len(styles)])
			check(c, "a"+a+"b"+b, styles[0])
			check(c, a+"x"+b+"y"+a, styles[0])
		}
	}
	// the url( family: anything that can stand in front of an unquoted url( x payloads in which
	// quotes do not delimit strings for a CSS tokenizer
	pres := []string{"", "a", "_", "-", "9", "a\"x\"", "\"x\"", "'y'", "a\"\"", "a''", "[b=\"c\"]", "a ", "a>", "a,", ":not(", "*", "a[b]", "\"\"\"\"", "a\"x\"b\"y\""}
	urls := []string{"url(", "URL(", "Url(", "uRl(", "url (", "url\\(", "u\\72l(", "\\75rl(", "url(/**/", "-url(", "xurl(", "url-prefix(", "image-set(url("}
	bodies := []string{"x\"){}input[value^=a]{background:url(//evil/a)}z{\"y)", "y\"){}b{c:d}e{\"w)", "x')", "x)", "x\")", "\"){}*{x:y}a{\")", "x y)", "x\\))", "x'){}a{b:c}d{')"}
	for _, p0 := range pres {
		for _, u := range urls {
			for _, b := range bodies {
				idx++
				if c.Mine(idx) {
					check(c, p0+u+b, styles[0])
				}
			}
		}
	}
	c.SetExhaustive("url( family: prefixes x spellings x payloads")
	for _, n := range gen.BoundaryLens() {
		idx++
		if !c.Mine(idx) {
			continue
		}
		for _, sp := range []string{"{", "}", ";", "@x", "<", "\"", "/*", "(", "]"} {
			check(c, gen.Pad("a", n)+sp, styles[0])
			check(c, gen.Pad("a b>c ", n)+sp+"x", styles[1])
		}
	}
	c.SetExhaustive("all pairs of selector atoms")
	// nesting depth: a bracket stack kept in a machine word or a fixed array forgets its outermost
	// entries (seeded C16-m9: bit 64 of a uint64); every depth up to 70 and the powers of two
	// around 128 .. 65536, homogeneous and mixed openers, balanced and with one wrong, missing or
	// surplus closer at the outermost, the middle and the innermost level
	depths := []int{}
	for d := 1; d <= 70; d++ {
		depths = append(depths, d)
	}
	for _, d := range []int{127, 128, 129, 255, 256, 257, 511, 512, 513, 1023, 1024, 1025, 4095, 4096, 4097, 65535, 65536, 65537} {
		depths = append(depths, d)
	}
	closer := map[byte]byte{'(': ')', '[': ']'}
	other := map[byte]byte{')': ']', ']': ')'}
	for _, d := range depths {
		for pat := 0; pat < 4; pat++ {
			idx++
			if !c.Mine(idx) {
				continue
			}
			open := make([]byte, d)
			for i := range open {
				switch pat {
				case 0:
					open[i] = '('
				case 1:
					open[i] = '['
				case 2:
					open[i] = "(["[i%2]
				default:
					open[i] = "[("[(i/3)%2]
				}
			}
			cl := make([]byte, d)
			for i := range cl {
				cl[i] = closer[open[d-1-i]]
			}
			check(c, "a"+string(open)+string(cl), styles[0])
			for _, at := range []int{0, d / 2, d - 1} {
				// cl[at] closes open[d-1-at]: at=d-1 is the outermost level
				bad := append([]byte(nil), cl...)
				bad[at] = other[bad[at]]
				check(c, "a"+string(open)+string(bad), styles[idx%len(styles)])
				check(c, "a"+string(open)+string(cl[:at])+string(cl[at+1:]), styles[0])
				check(c, "a"+string(open)+string(cl[:at])+string(cl[at:at+1])+string(cl[at:]), styles[0])
			}
			// the opener that is forgotten first is the outermost one: a different kind in front
			for _, o := range []byte{'(', '['} {
				check(c, "a"+string(o)+string(open)+string(cl)+string(other[closer[o]]), styles[0])
				check(c, "a"+string(o)+string(open)+string(cl)+string(closer[o]), styles[1])
			}
		}
	}
	c.SetExhaustive("bracket nesting depths 1..70 and around 2^7..2^16 x four opener patterns x wrong, missing, surplus closer at three levels")
	r := c.Rng("soup")
	n := c.N(600000, 10000000) / c.NShards
	for i := 0; i < n; i++ {
		var s string
		switch r.Intn(6) {
		case 0:
			s = gen.Soup(r, selAtoms, 1+r.Intn(8))
		case 1, 2:
			s = gen.Mutate(r, validSelectors[r.Intn(len(validSelectors))], selAtoms)
		case 3:
			s = validSelectors[r.Intn(len(validSelectors))] + gen.Soup(r, selAtoms, r.Intn(4)) + validSelectors[r.Intn(len(validSelectors))]
		case 4:
			// soups restricted to characters the library allows outside strings, plus quotes
			s = gen.Soup(r, []string{"a", "[", "]", "(", ")", "\"", "'", "=", "^", "$", "|", "~", ":", ".", "#", " ", ",", ">", "+", "*", "-", "_", "url(", "\\", "\n", "x"}, 1+r.Intn(12))
		default:
			s = gen.Mutate(r, gen.Mutate(r, validSelectors[r.Intn(len(validSelectors))], selAtoms), selAtoms)
		}
		st := styles[r.Intn(len(styles))]
		check(c, s, st)
		if i < 3 {
			c.Sample(map[string]string{"selector": util.Q(s)})
		}
	}
}
