package c19

import (
	"sort"
	"strings"
	"text/template/parse"

	"github.com/google/safehtml/template"
	tconv "github.com/google/safehtml/template/uncheckedconversions"

	"verif/core"
)

// overrideSites are one-action templates, one per kind of sanitization context.
var overrideSites = []string{
	`<b>{{.}}</b>`, `<a title="{{.}}">x</a>`, `<a href="{{.}}">x</a>`, `<a href="/p?q={{.}}">x</a>`, `<script>{{.}}</script>`, `<style>{{.}}</style>`,
	`<p style="{{.}}">x</p>`, `<img srcset="{{.}}">`, `<script src="{{.}}"></script>`, `<p id="{{.}}">x</p>`, `<a target="{{.}}">x</a>`, `<p dir="{{.}}">x</p>`,
	`<textarea>{{.}}</textarea>`, `<title>{{.}}</title>`, `<link rel="stylesheet" href="{{.}}">`, `<p title={{.}}>x</p>`, `<input type="{{.}}">`, `<img loading="{{.}}">`,
	`<form action="{{.}}"></form>`, `<iframe srcdoc="{{.}}"></iframe>`, `<a href="{{.}}" rel="{{.}}">x</a>`, `<img src="{{.}}" alt="{{.}}">`,
}

// pipeSites end in one of text/template's predefined escapers, which the engine takes for
// equivalent to its own sanitizer.
var pipeSites = []string{`<b>{{. | html}}</b>`, `<p title="{{. | html}}">x</p>`, `<textarea>{{. | html}}</textarea>`, `<a href="/x?q={{. | urlquery}}">x</a>`, `<b>{{html .}}</b>`, `<a href="{{. | urlquery}}">x</a>`}

func identsOf(n parse.Node, into map[string]bool) {
	switch n := n.(type) {
	case *parse.ListNode:
		if n == nil {
			return
		}
		for _, x := range n.Nodes {
			identsOf(x, into)
		}
	case *parse.ActionNode:
		for _, cmd := range n.Pipe.Cmds {
			for _, a := range cmd.Args {
				if id, ok := a.(*parse.IdentifierNode); ok {
					into[id.Ident] = true
				}
			}
		}
	case *parse.IfNode:
		identsOf(n.List, into)
		identsOf(n.ElseList, into)
	case *parse.RangeNode:
		identsOf(n.List, into)
		identsOf(n.ElseList, into)
	case *parse.WithNode:
		identsOf(n.List, into)
		identsOf(n.ElseList, into)
	}
}

// sanitizerOverride is clause 5: the functions that the engine inserts into the pipelines of
// actions are found by reading the rewritten parse trees (Template.Tree is exported) after a
// first execution; then a client tries to supply a function of the same name through Funcs -
// before Parse, after Parse, and after the first execution. Either Funcs refuses it, or the
// output of ExecuteToHTML must not contain what that function returns.
func sanitizerOverride(c *core.Ctx) {
	names := map[string]bool{}
	for _, site := range overrideSites {
		t, err := template.New("s").ParseFromTrustedTemplate(tconv.TrustedTemplateFromStringKnownToSatisfyTypeContract(site))
		if err != nil {
			continue
		}
		t.ExecuteToHTML("x")
		if t.Tree != nil {
			identsOf(t.Tree.Root, names)
		}
	}
	var sorted []string
	for n := range names {
		sorted = append(sorted, n)
	}
	sort.Strings(sorted)
	c.Count("engine_inserted_function_names_found", len(sorted))
	for _, n := range sorted {
		c.Hist("functions_found_in_rewritten_pipelines", n)
	}
	if len(sorted) == 0 {
		report(c, kase{Clause: "override", Item: "discovery"}, "no function name was found in the rewritten pipelines of %d one-action templates: the probe cannot see the sanitizers", len(overrideSites))
		return
	}
	sorted = append(sorted, "html", "urlquery")
	evil := payload(7)
	fm := func(name string) template.FuncMap {
		return template.FuncMap{name: func(args ...interface{}) string { return evil }}
	}
names:
	for _, name := range sorted {
		for _, when := range []string{"before Parse", "after Parse", "after the first execution"} {
			refusedAll := true
			sites := overrideSites
			if name == "html" || name == "urlquery" {
				sites = pipeSites
			}
			for _, site := range sites {
				c.Eval(1)
				var out string
				refused := false
				pn := core.Recover(func() {
					t := template.New("s")
					try := func() {
						defer func() {
							if recover() != nil {
								refused = true
							}
						}()
						t.Funcs(fm(name))
					}
					if when == "before Parse" {
						try()
					}
					if _, err := t.ParseFromTrustedTemplate(tconv.TrustedTemplateFromStringKnownToSatisfyTypeContract(site)); err != nil {
						return
					}
					if when == "after Parse" {
						try()
					}
					if when == "after the first execution" {
						t.ExecuteToHTML("x")
						try()
					}
					h, _ := t.ExecuteToHTML("x")
					out = h.String()
				})
				if pn != nil {
					report(c, kase{Clause: "override", Item: name, Detail: site}, "panic outside Funcs while probing %s %s on %s: %v", name, when, site, pn)
					return
				}
				if !refused {
					refusedAll = false
				}
				c.DistinctS("override", name, when, site)
				if strings.Contains(out, evil) {
					report(c, kase{Clause: "override", Item: name, Detail: when + " " + site}, "Funcs(FuncMap{%q: f}) %s was accepted and ExecuteToHTML of %s returned an HTML value that contains f's result verbatim: any caller of Funcs can replace the sanitizer", name, when, site)
					continue names
				}
			}
			if refusedAll {
				c.Hist("override_attempts", "refused by Funcs")
			} else {
				c.Hist("override_attempts", "accepted without effect on the output")
			}
		}
	}
}

// treeField probes the exported field Template.Tree (known finding K86): the parse tree that
// the engine executes can be edited by client code, before and after the analysis. In
// exploration mode it only counts; it is judged through its own witness.
func treeField(c *core.Ctx, judge bool) {
	evil := payload(8)
	variants := map[string]func() string{
		"text node overwritten before the first execution": func() string {
			t, err := template.New("x").ParseFromTrustedTemplate(tconv.TrustedTemplateFromStringKnownToSatisfyTypeContract("placeholder"))
			if err != nil || t.Tree == nil || len(t.Tree.Root.Nodes) == 0 {
				return ""
			}
			tn, ok := t.Tree.Root.Nodes[0].(*parse.TextNode)
			if !ok {
				return ""
			}
			tn.Text = []byte(evil)
			h, _ := t.ExecuteToHTML(nil)
			return h.String()
		},
		"text nodes overwritten after the first execution": func() string {
			t, err := template.New("x").ParseFromTrustedTemplate(tconv.TrustedTemplateFromStringKnownToSatisfyTypeContract("<p>{{.}}</p>"))
			if err != nil {
				return ""
			}
			t.ExecuteToHTML("a")
			if t.Tree == nil {
				return ""
			}
			for _, n := range t.Tree.Root.Nodes {
				if tn, ok := n.(*parse.TextNode); ok {
					tn.Text = []byte(evil)
				}
			}
			h, _ := t.ExecuteToHTML("a")
			return h.String()
		},
		"root replaced by a tree parsed from a run-time string": func() string {
			trees, err := parse.Parse("x", evil+"{{.}}", "", "", map[string]interface{}{})
			if err != nil {
				return ""
			}
			t, err := template.New("x").ParseFromTrustedTemplate(tconv.TrustedTemplateFromStringKnownToSatisfyTypeContract("placeholder"))
			if err != nil || t.Tree == nil {
				return ""
			}
			*t.Tree.Root = *trees["x"].Root
			h, _ := t.ExecuteToHTML("b")
			return h.String()
		},
	}
	var names []string
	for n := range variants {
		names = append(names, n)
	}
	sort.Strings(names)
	for _, n := range names {
		c.Eval(1)
		var out string
		if pn := core.Recover(func() { out = variants[n]() }); pn != nil {
			continue
		}
		if strings.Contains(out, evil) {
			c.Count("tree_field_edit_reaches_html:"+n, 1)
			if judge {
				report(c, kase{Clause: "tree-field", Item: n}, "Template.Tree is an exported field holding the tree that is executed: %s, and ExecuteToHTML returned an HTML value with the run-time string %q verbatim", n, evil)
				return
			}
		}
	}
}
