// Package c19 monitors "trusted-text parameters accept only compile-time constants; no raw
// back doors" (C19) on the exported API as linked into the running binary.
package c19

import (
	"embed"
	"encoding/json"
	"flag"
	"fmt"
	"io"
	"os"
	"path/filepath"
	"reflect"
	"sort"
	"strings"
	"testing/fstest"
	"unicode"

	"github.com/google/safehtml"
	"github.com/google/safehtml/template"

	"verif/core"
	"verif/mon/c19/reg"
	"verif/util"
)

type surface struct {
	Const map[string][]int `json:"constant_only_parameters"`
	Safe  []string         `json:"safe_types"`
}

type kase struct {
	Clause string `json:"clause"`
	Item   string `json:"item"`
	Detail string `json:"detail,omitempty"`
}

const payloadTail = "\"'<>&;:{}()/\\..%00 \n"

func payload(n int) string { return fmt.Sprintf("zQ%dz", n) + payloadTail }

func init() {
	core.Register(&core.Monitor{
		ID:    "C19",
		Level: "other",
		Rule: "The registry of exported functions, types, variables and aliases of packages safehtml and safehtml/template is regenerated from /repo's current sources (go/parser) and linked into the monitor. Observed at run time: (1) reflect type identity of every parameter in the reviewed list policy/api_surface.json: a defined string-kind type declared in the library with an unexported name, and no exported function result, variable, field, alias or method result exposes such a type; any exported function or method of the registry that takes a plain string where the reviewed list demands a constant fails the check; " +
			"(2) each safe type is a struct with only unexported fields, no exported method mutates it from caller strings, and no other exported type of the registry (nor string, []byte or a look-alike struct) is convertible to it (reflect.Type.ConvertibleTo); (3) dynamic taint probe: every exported function and every method of every exported type is called with a hostile payload in each parameter that carries caller strings (string, []string, map[string]string, []byte, interface{}, StyleProperties) and benign values elsewhere; a returned safe-type value (or HTML produced by a returned template) that contains the payload verbatim is a violation; (4) ParseFS patterns never read a canary file outside the TrustedFS root; (5) the functions the engine inserts into action pipelines are read from the rewritten trees after a first execution, and a FuncMap entry of each such name, given to Funcs before Parse, after Parse or after the first execution, is either refused or leaves the HTML returned by ExecuteToHTML free of that function's result. " +
			"Not observable by this technique: that the Go compiler rejects a given client program; it is inferred from (1) under the Go specification's assignability and export rules.",
		Assumptions: []string{"Go specification: a value of an unexported defined string type of another package can only be produced by an untyped constant (assignability) — stated assumption, not observed", "policy/api_surface.json is the reviewed list of constant-gated parameters and safe types"},
		Run:         run,
		Replay:      replay,
		MinDistinct: func(string) int64 { return 50 },
		Shards:      func(string) int { return 1 },
	})
}

// only, when set, restricts what a witness replay reports to the clause and item of the witness
// (a replay is the whole run: a different violation belongs to the run, not to this witness).
var only *kase

func report(c *core.Ctx, k kase, format string, args ...interface{}) {
	if only != nil && (only.Clause != k.Clause || only.Item != "*" && only.Item != k.Item) {
		return
	}
	c.Violation(k, format, args...)
}

func replay(c *core.Ctx, raw json.RawMessage) error {
	var k kase
	json.Unmarshal(raw, &k)
	only = &k
	if k.Clause == "generic-bypass" {
		genericBypass(c, true)
		return nil
	}
	if k.Clause == "tree-field" {
		treeField(c, true)
		return nil
	}
	// every other clause is decided by the whole run; the generic-helper probe (K27) is
	// judged only through its own witness
	c.Strict = false
	run(c)
	return nil
}

// genericBypass demonstrates at run time, without reflection, that a non-constant string can
// be passed to constant-only parameters through a generic conversion helper (known finding
// K27). In exploration mode it only counts.
func genericBypass(c *core.Ctx, judge bool) {
	names := make([]string, 0, len(reg.GenericBypass))
	for n := range reg.GenericBypass {
		names = append(names, n)
	}
	sort.Strings(names)
	for i, n := range names {
		c.Eval(1)
		p := payload(1000 + i)
		var out interface{}
		if pn := core.Recover(func() { out = reg.GenericBypass[n](p) }); pn != nil {
			continue
		}
		if st, ok := out.(fmt.Stringer); ok && strings.Contains(st.String(), p) {
			c.Count("generic_bypass_works:"+n, 1)
			if judge {
				report(c, kase{Clause: "generic-bypass", Item: n}, "%s accepted the run-time string %q through `func Conv1[T ~string, R any](f func(T) R, s string) R { return f(T(s)) }`: a client program that passes a non-constant string to a constant-only parameter compiles (Go >= 1.18 type parameters)", n, p)
				return
			}
		}
	}
}

func loadSurface() surface {
	root := os.Getenv("VERIF_ROOT")
	if root == "" {
		root = "/verif"
	}
	b, err := os.ReadFile(filepath.Join(root, "policy", "api_surface.json"))
	if err != nil {
		panic(err)
	}
	var s surface
	if err := json.Unmarshal(b, &s); err != nil {
		panic(err)
	}
	return s
}

const libPrefix = "github.com/google/safehtml"

func isConstType(t reflect.Type) bool {
	if t.Kind() != reflect.String || t.PkgPath() == "" || !strings.HasPrefix(t.PkgPath(), libPrefix) {
		return false
	}
	r := []rune(t.Name())
	return len(r) > 0 && !unicode.IsUpper(r[0])
}

func shortType(t reflect.Type) string {
	return strings.ReplaceAll(t.String(), "safehtml.", "")
}

var (
	flagValueType = reflect.TypeOf((*flag.Value)(nil)).Elem()
	embedFSType   = reflect.TypeOf(embed.FS{})
	writerType    = reflect.TypeOf((*io.Writer)(nil)).Elem()
	errorType     = reflect.TypeOf((*error)(nil)).Elem()
	stringerType  = reflect.TypeOf((*fmt.Stringer)(nil)).Elem()
)

type env struct {
	c      *core.Ctx
	surf   surface
	safe   map[reflect.Type]string
	n      int
	tmpl   *template.Template
	fsroot string
}

// benign builds a harmless value of type t; ok=false if the type cannot be provided.
func (e *env) benign(t reflect.Type) (reflect.Value, bool) {
	switch {
	case isConstType(t):
		return reflect.ValueOf("x").Convert(t), true
	case t == flagValueType:
		return reflect.ValueOf(util.FlagValue("/benign/")).Convert(t), true
	case t.Implements(flagValueType) && t.Kind() == reflect.Interface:
		return reflect.ValueOf(util.FlagValue("/benign/")).Convert(t), true
	case t == embedFSType:
		return reflect.ValueOf(embed.FS{}), true
	case t == writerType:
		return reflect.ValueOf(io.Discard).Convert(t), true
	case t == reflect.TypeOf(safehtml.HTML{}):
		return reflect.ValueOf(safehtml.HTMLEscaped("benign")), true
	case t == reflect.TypeOf(safehtml.Style{}):
		return reflect.ValueOf(safehtml.StyleFromProperties(safehtml.StyleProperties{Color: "red"})), true
	case t == reflect.TypeOf(safehtml.TrustedResourceURL{}):
		return reflect.ValueOf(safehtml.TrustedResourceURLFromFlag(util.FlagValue("/benign/"))), true
	case t == reflect.TypeOf(template.TrustedSource{}):
		return reflect.ValueOf(template.TrustedSourceFromFlag(util.FlagValue(e.fsroot))), true
	case t == reflect.TypeOf(template.TrustedFS{}):
		return reflect.ValueOf(template.TrustedFSFromTrustedSource(template.TrustedSourceFromFlag(util.FlagValue(e.fsroot)))), true
	case t == reflect.TypeOf((*template.Template)(nil)):
		return reflect.ValueOf(template.New("benign")), true
	case t == reflect.TypeOf(template.FuncMap{}):
		return reflect.ValueOf(template.FuncMap{}), true
	case t == errorType:
		return reflect.Zero(t), true
	case t.Kind() == reflect.Bool, t.Kind() == reflect.Int:
		return reflect.Zero(t), true
	}
	if _, ok := e.safe[t]; ok {
		return reflect.Zero(t), true
	}
	switch t.Kind() {
	case reflect.Int8, reflect.Int16, reflect.Int32, reflect.Int64, reflect.Uint, reflect.Uint8, reflect.Uint16, reflect.Uint32, reflect.Uint64, reflect.Float32, reflect.Float64, reflect.Func, reflect.Chan:
		return reflect.Zero(t), true
	case reflect.Interface:
		// a harmless implementation, if one is at hand
		for _, v := range []interface{}{fstest.MapFS{"a.tmpl": &fstest.MapFile{Data: []byte("A")}}, io.Discard, util.FlagValue("/benign/"), strings.NewReader("benign")} {
			if reflect.TypeOf(v).Implements(t) {
				return reflect.ValueOf(v).Convert(t), true
			}
		}
	}
	return reflect.Value{}, false
}

// hostile builds a payload-carrying value of type t if t carries caller strings.
func (e *env) hostile(t reflect.Type, p string) (reflect.Value, bool) {
	switch {
	case t.Kind() == reflect.String && t.PkgPath() == "":
		return reflect.ValueOf(p).Convert(t), true
	case t.Kind() == reflect.Slice && t.Elem().Kind() == reflect.String && t.Elem().PkgPath() == "":
		return reflect.ValueOf([]string{p, p}).Convert(t), true
	case t.Kind() == reflect.Slice && t.Elem().Kind() == reflect.Uint8:
		return reflect.ValueOf([]byte(p)).Convert(t), true
	case t.Kind() == reflect.Map && t.Key().Kind() == reflect.String && t.Elem().Kind() == reflect.String && t.Key().PkgPath() == "":
		m := reflect.MakeMap(t)
		m.SetMapIndex(reflect.ValueOf(p).Convert(t.Key()), reflect.ValueOf(p).Convert(t.Elem()))
		m.SetMapIndex(reflect.ValueOf("x").Convert(t.Key()), reflect.ValueOf(p).Convert(t.Elem()))
		return m, true
	case t.Kind() == reflect.Interface && t.NumMethod() == 0:
		return reflect.ValueOf(&p).Elem().Convert(t), true
	case t.Kind() == reflect.Interface && reflect.TypeOf(fstest.MapFS{}).Implements(t):
		// a file system made at run time, whose files hold the payload
		return reflect.ValueOf(fstest.MapFS{"p.tmpl": &fstest.MapFile{Data: []byte(p)}, "sub/q.tmpl": &fstest.MapFile{Data: []byte(p)}}).Convert(t), true
	case t.Kind() == reflect.Interface && reflect.TypeOf((*strings.Reader)(nil)).Implements(t):
		return reflect.ValueOf(strings.NewReader(p)).Convert(t), true
	case t == reflect.TypeOf(safehtml.StyleProperties{}):
		v := reflect.New(t).Elem()
		for i := 0; i < v.NumField(); i++ {
			f := v.Field(i)
			if f.Kind() == reflect.String {
				f.SetString(p)
			} else if f.Kind() == reflect.Slice {
				f.Set(reflect.ValueOf([]string{p}))
			}
		}
		return v, true
	}
	return reflect.Value{}, false
}

// tainted reports whether a result value is (or contains) a safe-type value, or a template
// producing HTML, whose text contains the payload verbatim.
func (e *env) tainted(v reflect.Value, p string, depth int) (bool, string) {
	if !v.IsValid() || depth > 3 {
		return false, ""
	}
	t := v.Type()
	if t == reflect.TypeOf(template.TrustedFS{}) {
		// what the file system holds is template text: parse everything in it and run it
		var out string
		core.Recover(func() {
			tfs := v.Interface().(template.TrustedFS)
			for _, pat := range []string{"*.tmpl", "*/*.tmpl"} {
				tm, err := template.New("fsprobe").ParseFS(tfs, pat)
				if err != nil {
					continue
				}
				for _, x := range tm.Templates() {
					if h, err := x.ExecuteToHTML(nil); err == nil {
						out += h.String()
					}
				}
			}
		})
		// (template text is markup by definition: the engine only normalises it, so the
		// marker at the start of the payload decides)
		if strings.Contains(out, strings.TrimSuffix(p, payloadTail)) {
			return true, fmt.Sprintf("TrustedFS whose templates execute to HTML %q", out)
		}
		return false, ""
	}
	if name, ok := e.safe[t]; ok {
		if m := v.MethodByName("String"); m.IsValid() {
			var s string
			core.Recover(func() { s = m.Call(nil)[0].String() })
			if strings.Contains(s, p) {
				return true, fmt.Sprintf("%s value %q", name, s)
			}
		}
		return false, ""
	}
	switch t.Kind() {
	case reflect.Ptr:
		if t == reflect.TypeOf((*template.Template)(nil)) && !v.IsNil() {
			// the template itself and every template associated with it
			// (template text is markup by definition: the engine only normalises it, so the
			// marker at the start of the payload decides)
			var hit string
			core.Recover(func() {
				tm := v.Interface().(*template.Template)
				for _, x := range append([]*template.Template{tm}, tm.Templates()...) {
					if x == nil {
						continue
					}
					if out, err := x.ExecuteToHTML(nil); err == nil && strings.Contains(out.String(), strings.TrimSuffix(p, payloadTail)) {
						hit = fmt.Sprintf("template %q executing to HTML %q", x.Name(), out.String())
						return
					}
				}
			})
			return hit != "", hit
		}
		if !v.IsNil() {
			return e.tainted(v.Elem(), p, depth+1)
		}
	case reflect.Slice, reflect.Array:
		for i := 0; i < v.Len() && i < 8; i++ {
			if b, s := e.tainted(v.Index(i), p, depth+1); b {
				return b, s
			}
		}
	case reflect.Struct:
		for i := 0; i < v.NumField(); i++ {
			if t.Field(i).IsExported() {
				if b, s := e.tainted(v.Field(i), p, depth+1); b {
					return b, s
				}
			}
		}
	case reflect.Interface:
		if !v.IsNil() {
			return e.tainted(v.Elem(), p, depth+1)
		}
	}
	return false, ""
}

// probe calls fn with a payload in parameter pi (or in all string-carrying parameters when
// pi < 0) and benign values elsewhere.
func (e *env) probe(name string, fn reflect.Value, recv *reflect.Value) {
	ft := fn.Type()
	nin := ft.NumIn()
	start := 0
	if recv != nil {
		start = 1
	}
	var carriers []int
	for i := start; i < nin; i++ {
		pt := ft.In(i)
		if ft.IsVariadic() && i == nin-1 {
			pt = pt.Elem()
		}
		if _, ok := e.hostile(pt, "x"); ok {
			carriers = append(carriers, i)
		}
	}
	variants := [][]int{carriers}
	for _, ci := range carriers {
		variants = append(variants, []int{ci})
	}
	if len(carriers) == 0 {
		variants = [][]int{nil}
	}
	// a second round passes the receiver itself wherever a parameter has its type
	// (t.M(t, ...)): helpers that expect "a template of this set" only misbehave then
	aliasRounds := 1
	if recv != nil {
		for i := start; i < nin; i++ {
			if ft.In(i) == recv.Type() {
				aliasRounds = 2
			}
		}
	}
	for round := 0; round < aliasRounds; round++ {
		for _, hot := range variants {
			if recv != nil && recv.Type() == reflect.TypeOf((*template.Template)(nil)) {
				// a fresh receiver: judging the previous one has executed (and frozen) it
				nr := reflect.ValueOf(template.New("recv"))
				recv = &nr
			}
			e.n++
			p := payload(e.n)
			args := make([]reflect.Value, 0, nin)
			ok := true
			for i := 0; i < nin; i++ {
				if recv != nil && i == 0 {
					args = append(args, *recv)
					continue
				}
				pt := ft.In(i)
				variadic := ft.IsVariadic() && i == nin-1
				if variadic {
					pt = pt.Elem()
				}
				isHot := false
				for _, h := range hot {
					if h == i {
						isHot = true
					}
				}
				var v reflect.Value
				var got bool
				if round == 1 && !isHot && pt == recv.Type() {
					args = append(args, *recv)
					continue
				}
				if isHot {
					v, got = e.hostile(pt, p)
				} else if v, got = e.benign(pt); !got {
					v, got = e.hostile(pt, "benign")
				}
				if !got {
					ok = false
					break
				}
				args = append(args, v)
			}
			if !ok {
				e.c.Hist("probe", "skipped: parameter type cannot be provided")
				e.c.Count("functions_not_callable:"+name, 1)
				return
			}
			e.c.Eval(1)
			e.c.DistinctS(name, fmt.Sprint(hot))
			var outs []reflect.Value
			pn := core.Recover(func() { outs = fn.Call(args) })
			if pn != nil {
				e.c.Hist("probe", "panicked (rejected)")
				continue
			}
			e.c.Hist("probe", "returned")
			for _, o := range outs {
				if b, what := e.tainted(o, p, 0); b {
					report(e.c, kase{Clause: "taint", Item: name, Detail: fmt.Sprintf("payload in parameters %v", hot)}, "%s called with the caller-supplied string %q (parameters %v) returned a %s: unsanitized caller text inside a safe type", name, p, hot, what)
				}
			}
			// mutation of a template that was passed as an argument (e.g. a helper that parses
			// caller text into it)
			for i, a := range args {
				if recv != nil && i == 0 {
					continue
				}
				if a.IsValid() && a.Type() == reflect.TypeOf((*template.Template)(nil)) && !a.IsNil() {
					if b, what := e.tainted(a, p, 0); b {
						report(e.c, kase{Clause: "mutation", Item: name}, "%s called with the caller-supplied string %q changed the template passed as argument %d: %s", name, p, i, what)
					}
				}
			}
			// mutation through pointer receivers
			if recv != nil && recv.Kind() == reflect.Ptr {
				rv := recv.Elem()
				if recv.Type() == reflect.TypeOf((*template.Template)(nil)) {
					rv = *recv // judged as a template: by what it and its set execute to
				}
				if b, what := e.tainted(rv, p, 0); b {
					report(e.c, kase{Clause: "mutation", Item: name}, "method %s stored the caller-supplied string %q in its receiver: %s", name, p, what)
				}
			}
		}
	}
}

func run(c *core.Ctx) {
	surf := loadSurface()
	e := &env{c: c, surf: surf, safe: map[reflect.Type]string{}}
	e.fsroot = filepath.Join(core.RunDir(), "fsroot")
	os.MkdirAll(e.fsroot, 0o755)
	os.WriteFile(filepath.Join(e.fsroot, "a.tmpl"), []byte(`A{{define "inside"}}in{{end}}`), 0o644)
	canary := filepath.Join(core.RunDir(), "canary.tmpl")
	os.WriteFile(canary, []byte(`CANARY{{define "canary"}}leak{{end}}`), 0o644)

	for _, n := range surf.Safe {
		t, ok := reg.Types[n]
		if !ok {
			report(c, kase{Clause: "registry", Item: n}, "safe type %s of the reviewed list is not exported any more", n)
			continue
		}
		e.safe[t] = n
	}
	c.Count("registry_functions", len(reg.Funcs))
	c.Count("registry_types", len(reg.Types))
	c.Count("registry_vars", len(reg.Vars))
	c.Count("registry_consts", len(reg.Consts))

	// ---- clause 1: constant-only parameters
	lookupFn := func(name string) (reflect.Value, bool, int) {
		if f, ok := reg.Funcs[name]; ok {
			return reflect.ValueOf(f), true, 0
		}
		parts := strings.Split(name, ".")
		if len(parts) == 3 {
			if t, ok := reg.Types[parts[0]+"."+parts[1]]; ok {
				if m, ok := reflect.PtrTo(t).MethodByName(parts[2]); ok {
					return m.Func, true, 1
				}
			}
		}
		return reflect.Value{}, false, 0
	}
	var constTypes []reflect.Type
	names := make([]string, 0, len(surf.Const))
	for n := range surf.Const {
		names = append(names, n)
	}
	sort.Strings(names)
	for _, name := range names {
		fn, ok, off := lookupFn(name)
		if !ok {
			c.Count("reviewed_functions_absent", 1)
			continue
		}
		ft := fn.Type()
		for _, idx := range surf.Const[name] {
			c.Eval(1)
			var pt reflect.Type
			if idx < 0 {
				if !ft.IsVariadic() {
					report(c, kase{Clause: "constant-only", Item: name}, "%s is no longer variadic over a constant-only type", name)
					continue
				}
				pt = ft.In(ft.NumIn() - 1).Elem()
			} else {
				if idx+off >= ft.NumIn() {
					report(c, kase{Clause: "constant-only", Item: name}, "%s has no parameter %d any more", name, idx)
					continue
				}
				pt = ft.In(idx + off)
			}
			c.DistinctS("const", name, fmt.Sprint(idx))
			if !isConstType(pt) {
				report(c, kase{Clause: "constant-only", Item: name, Detail: pt.String()}, "parameter %d of %s has type %s: not an unexported string type defined in the library, so non-constant strings can be passed", idx, name, pt)
				continue
			}
			constTypes = append(constTypes, pt)
		}
	}
	isConst := func(t reflect.Type) bool {
		for _, ct := range constTypes {
			if ct == t {
				return true
			}
		}
		return isConstType(t)
	}
	// nothing exported exposes a constant-only type
	var exposes func(t reflect.Type, depth int) bool
	exposes = func(t reflect.Type, depth int) bool {
		if depth > 3 {
			return false
		}
		if isConst(t) {
			return true
		}
		switch t.Kind() {
		case reflect.Ptr, reflect.Slice, reflect.Array, reflect.Chan:
			return exposes(t.Elem(), depth+1)
		case reflect.Map:
			return exposes(t.Key(), depth+1) || exposes(t.Elem(), depth+1)
		case reflect.Func:
			for i := 0; i < t.NumOut(); i++ {
				if exposes(t.Out(i), depth+1) {
					return true
				}
			}
		case reflect.Struct:
			for i := 0; i < t.NumField(); i++ {
				if t.Field(i).IsExported() && exposes(t.Field(i).Type, depth+1) {
					return true
				}
			}
		}
		return false
	}
	for name, f := range reg.Funcs {
		ft := reflect.TypeOf(f)
		for i := 0; i < ft.NumOut(); i++ {
			c.Eval(1)
			if exposes(ft.Out(i), 0) {
				report(c, kase{Clause: "exposure", Item: name}, "result %d of %s has (or contains) the constant-only type %s: client code can obtain a non-constant value of it", i, name, ft.Out(i))
			}
		}
	}
	for name, v := range reg.Vars {
		c.Eval(1)
		if exposes(reflect.TypeOf(v).Elem(), 0) {
			report(c, kase{Clause: "exposure", Item: name}, "exported variable %s exposes a constant-only type", name)
		}
	}
	for name, v := range reg.Consts {
		c.Eval(1)
		c.DistinctS("const-exposure", name)
		if exposes(reflect.TypeOf(v), 0) {
			report(c, kase{Clause: "exposure", Item: name}, "exported constant %s has the constant-only type %s: client code holds a value of that type, and slicing or concatenating it (%s[:0] + s...) yields run-time values that every constant-only parameter accepts", name, reflect.TypeOf(v), name)
		}
	}
	for name, rhs := range reg.Aliases {
		c.Eval(1)
		r := []rune(rhs)
		if len(r) > 0 && unicode.IsLower(r[0]) && !strings.Contains(rhs, ".") && rhs != "string" && rhs != "error" && rhs != "bool" && rhs != "int" && rhs != "byte" && rhs != "rune" {
			report(c, kase{Clause: "exposure", Item: name}, "exported alias %s = %s makes an unexported type nameable by clients", name, rhs)
		}
	}
	for name, t := range reg.Types {
		c.Eval(1)
		if isConst(t) || t.Kind() == reflect.String && exposesUnderlying(t, constTypes) {
			report(c, kase{Clause: "exposure", Item: name}, "exported type %s is a constant-only type", name)
		}
		for _, rt := range []reflect.Type{t, reflect.PtrTo(t)} {
			for i := 0; i < rt.NumMethod(); i++ {
				m := rt.Method(i)
				for j := 0; j < m.Type.NumOut(); j++ {
					if exposes(m.Type.Out(j), 0) {
						report(c, kase{Clause: "exposure", Item: name + "." + m.Name}, "method %s.%s returns the constant-only type %s", name, m.Name, m.Type.Out(j))
					}
				}
			}
		}
		if t.Kind() == reflect.Struct {
			for i := 0; i < t.NumField(); i++ {
				if t.Field(i).IsExported() && exposes(t.Field(i).Type, 0) {
					report(c, kase{Clause: "exposure", Item: name}, "exported field %s.%s exposes a constant-only type", name, t.Field(i).Name)
				}
			}
		}
	}

	// ---- clause 2: safe types are closed
	for t, name := range e.safe {
		c.Eval(1)
		c.DistinctS("closed", name)
		if t.Kind() != reflect.Struct {
			report(c, kase{Clause: "closed", Item: name}, "safe type %s is a %s, not a struct with unexported fields: clients can convert strings to it", name, t.Kind())
			continue
		}
		for i := 0; i < t.NumField(); i++ {
			if t.Field(i).IsExported() {
				report(c, kase{Clause: "closed", Item: name}, "safe type %s has the exported field %s: clients can construct or modify it", name, t.Field(i).Name)
			}
			if t.Field(i).Anonymous {
				c.Count("embedded_fields_in_safe_types", 1)
			}
		}
	}

	// ---- clause 2b: no conversion between safe types, or from any other exported type or
	// basic type, yields a safe type (Go converts between struct types whose underlying
	// types are identical; found as K36)
	var tnames []string
	for n := range reg.Types {
		tnames = append(tnames, n)
	}
	sort.Strings(tnames)
	basics := map[string]reflect.Type{"string": reflect.TypeOf(""), "[]byte": reflect.TypeOf([]byte(nil)), "struct{str string}": reflect.TypeOf(struct{ str string }{}), "struct{}": reflect.TypeOf(struct{}{})}
	for dst, dname := range e.safe {
		for _, sn := range tnames {
			src := reg.Types[sn]
			if src == dst {
				continue
			}
			c.Eval(1)
			c.DistinctS("convertible", sn+"->"+dname)
			if src.ConvertibleTo(dst) {
				report(c, kase{Clause: "convertible", Item: dname + "<-" + sn}, "a value of type %s converts to the safe type %s (identical underlying types): the client expression %s(v) compiles and carries the contents over without the sanitization %s stands for", sn, dname, dname, dname)
			}
		}
		for bn, bt := range basics {
			c.Eval(1)
			c.DistinctS("convertible", bn+"->"+dname)
			if bt.ConvertibleTo(dst) {
				report(c, kase{Clause: "convertible", Item: dname + "<-" + bn}, "a %s converts to the safe type %s", bn, dname)
			}
		}
	}

	// ---- clause 3: dynamic taint probe over functions and methods
	fnames := make([]string, 0, len(reg.Funcs))
	for n := range reg.Funcs {
		fnames = append(fnames, n)
	}
	sort.Strings(fnames)
	for _, name := range fnames {
		if name == "template.MustParseAndExecuteToHTML" || name == "template.Must" {
			continue // log.Fatal / panic by contract; its only parameter is constant-only (checked above)
		}
		c.Journal(util.JSON(kase{Clause: "taint", Item: name}))
		e.probe(name, reflect.ValueOf(reg.Funcs[name]), nil)
	}
	tnames = tnames[:0]
	for n := range reg.Types {
		tnames = append(tnames, n)
	}
	sort.Strings(tnames)
	for _, tn := range tnames {
		t := reg.Types[tn]
		if t.Kind() == reflect.Interface {
			continue
		}
		pt := reflect.PtrTo(t)
		for i := 0; i < pt.NumMethod(); i++ {
			m := pt.Method(i)
			mname := tn + "." + m.Name
			if tn == "template.Template" && (m.Name == "Option") {
				continue // documented panic on unknown options, returns the receiver
			}
			var recv reflect.Value
			if bv, ok := e.benign(t); ok && t != reflect.TypeOf(template.Template{}) {
				recv = reflect.New(t)
				recv.Elem().Set(bv)
			} else if t == reflect.TypeOf(template.Template{}) {
				recv = reflect.ValueOf(template.New("recv"))
			} else {
				recv = reflect.New(t)
			}
			c.Journal(util.JSON(kase{Clause: "taint", Item: mname}))
			e.probe(mname, m.Func, &recv)
		}
	}

	// ---- generic conversion bypass (known finding K27): counted here, judged by the witness replay
	genericBypass(c, c.Strict)
	// ---- exported parse tree (known finding K86): counted here, judged by the witness replay
	treeField(c, c.Strict)

	// ---- clause 4: ParseFS confinement
	tfs := template.TrustedFSFromTrustedSource(template.TrustedSourceFromFlag(util.FlagValue(e.fsroot)))
	patterns := []string{"../canary.tmpl", "../*.tmpl", canary, "/" + canary, "..", ".", "*", "a.tmpl", "a.tmpl/../../canary.tmpl", "*/../../*.tmpl", "./../canary.tmpl", "..\\canary.tmpl", "%2e%2e/canary.tmpl", "a.tmpl\x00../canary.tmpl", "[", "**/canary.tmpl", "../../../../../../../../" + canary}
	for _, pat := range patterns {
		c.Eval(1)
		c.DistinctS("parsefs", pat)
		var t *template.Template
		var err error
		pn := core.Recover(func() { t, err = template.ParseFS(tfs, pat) })
		if pn != nil {
			report(c, kase{Clause: "parsefs", Item: pat}, "ParseFS panicked on pattern %q: %v", pat, pn)
			continue
		}
		if err == nil && t != nil && (t.Lookup("canary") != nil || t.Lookup("canary.tmpl") != nil) {
			report(c, kase{Clause: "parsefs", Item: pat}, "ParseFS with pattern %q read a file outside the TrustedFS root", pat)
		}
		c.Hist("parsefs", fmt.Sprint(err == nil))
	}
	// ---- clause 5: the engine's own pipeline functions cannot be replaced through Funcs
	sanitizerOverride(c)
	c.Sample(map[string]interface{}{"payload": payload(0), "functions": fnames, "types": tnames})
}

func exposesUnderlying(t reflect.Type, consts []reflect.Type) bool { return false }
