package reg

// Conv1 converts a run-time string to whatever string-kind parameter type f has, by type
// inference: client code can do the same for an unexported constant-only type of another
// package (Go >= 1.18), which is known finding K27 of property C19.
func Conv1[T ~string, R any](f func(T) R, s string) R { return f(T(s)) }
