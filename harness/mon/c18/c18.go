// Package c18 monitors the Identifier constructors (property C18).
package c18

import (
	"encoding/json"
	"unicode/utf8"

	"github.com/google/safehtml"

	"verif/core"
	"verif/gen"
	"verif/util"
)

type kase struct {
	Prefix *string `json:"prefix_quoted,omitempty"`
	Value  string  `json:"value_quoted"`
}

func init() {
	core.Register(&core.Monitor{
		ID:    "C18",
		Level: "exploration",
		Rule: "inputs: every byte string of length <=2 (thorough <=3) as the value of IdentifierFromConstant and as the dynamic value of IdentifierFromConstantPrefix (valid and invalid constant prefixes), " +
			"valid identifiers with one inserted/appended byte or code point (newline, NUL, Unicode letters/digits, combining marks, invalid UTF-8) at every position, seeded soups; " +
			"the constant-only parameters are driven through reflect conversion; distinct by (function, prefix, value)",
		Assumptions: []string{"oracle: byte-level recogniser of [A-Za-z][-_A-Za-z0-9]* written in the harness"},
		Run:         run,
		Replay:      replay,
		MinDistinct: func(string) int64 { return 50000 },
	})
}

func replay(c *core.Ctx, raw json.RawMessage) error {
	var k kase
	if err := json.Unmarshal(raw, &k); err != nil {
		return err
	}
	if k.Prefix != nil {
		checkPrefix(c, util.Unq(*k.Prefix), util.Unq(k.Value))
	} else {
		checkConst(c, util.Unq(k.Value))
	}
	return nil
}

func alpha(b byte) bool { return 'a' <= b && b <= 'z' || 'A' <= b && b <= 'Z' }
func tail(b byte) bool  { return alpha(b) || '0' <= b && b <= '9' || b == '-' || b == '_' }

func isIdent(s string) bool {
	if len(s) == 0 || !alpha(s[0]) {
		return false
	}
	for i := 1; i < len(s); i++ {
		if !tail(s[i]) {
			return false
		}
	}
	return true
}

func checkConst(c *core.Ctx, v string) {
	c.Eval(1)
	c.Note(func() interface{} { return kase{Value: util.Q(v)} })
	c.DistinctS("const", v)
	var res string
	p := core.Recover(func() {
		res = util.CallConst(safehtml.IdentifierFromConstant, v)[0].Interface().(safehtml.Identifier).String()
	})
	if p != nil {
		c.Count("panicked", 1)
		return
	}
	c.Count("accepted", 1)
	if !isIdent(res) || res != v {
		c.Violation(kase{Value: util.Q(v)}, "IdentifierFromConstant(%+q) returned %+q", v, res)
	}
}

func checkPrefix(c *core.Ctx, pre, v string) {
	c.Eval(1)
	c.Note(func() interface{} { pq := util.Q(pre); return kase{Prefix: &pq, Value: util.Q(v)} })
	c.DistinctS("prefix", pre, v)
	var res string
	p := core.Recover(func() {
		res = util.CallConst(safehtml.IdentifierFromConstantPrefix, pre, v)[0].Interface().(safehtml.Identifier).String()
	})
	if p != nil {
		c.Count("panicked", 1)
		return
	}
	c.Count("accepted", 1)
	pq := util.Q(pre)
	if !isIdent(res) || res != pre+"-"+v {
		c.Violation(kase{Prefix: &pq, Value: util.Q(v)}, "IdentifierFromConstantPrefix(%+q, %+q) returned %+q", pre, v, res)
	}
}

func run(c *core.Ctx) {
	prefixes := []string{"p", "my-id", "A_b-9", "x-", "", "9", "-a", "a b", "a\n", "é"}
	maxLen := c.N(2, 3)
	cnt := 0
	buf := make([]byte, 0, 3)
	var rec func(depth int)
	rec = func(depth int) {
		cnt++
		if c.Mine(cnt) {
			s := string(buf)
			checkConst(c, s)
			checkPrefix(c, prefixes[cnt%3], s)
			if cnt%64 == 0 {
				checkPrefix(c, prefixes[3+cnt/64%(len(prefixes)-3)], s)
			}
		}
		if depth == maxLen {
			return
		}
		for b := 0; b < 256; b++ {
			buf = append(buf, byte(b))
			rec(depth + 1)
			buf = buf[:len(buf)-1]
		}
	}
	rec(0)
	c.SetExhaustive("all byte strings up to the length bound, both constructors")
	// insertions into valid identifiers
	ids := []string{"a", "Z", "ab", "my-id", "x_1", "a-", "a_", "A9", "trailing-", "a--b"}
	var ins []string
	for b := 0; b < 256; b++ {
		ins = append(ins, string([]byte{byte(b)}))
	}
	for _, r := range []rune{0x00E9, 0x0660, 0x0661, 0xFF11, 0xFF41, 0x0301, 0x200D, 0x2028, 0x0085, 0x00A0, 0x212A, 0x0131, 0x017F, 0x0391, 0x4E2D, 0x1D7CF, 0x10FFFF} {
		b := make([]byte, 4)
		n := utf8.EncodeRune(b, r)
		ins = append(ins, string(b[:n]))
	}
	ins = append(ins, "\r\n", "\n\n", " ", "\xc3", "\xed\xa0\x80", "\xf4\x90\x80\x80")
	idx := 0
	for _, id := range ids {
		for pos := 0; pos <= len(id); pos++ {
			for _, u := range ins {
				idx++
				if !c.Mine(idx) {
					continue
				}
				s := id[:pos] + u + id[pos:]
				checkConst(c, s)
				checkPrefix(c, "pre", s)
				checkPrefix(c, s, "v")
			}
		}
	}
	for bi, n := range gen.BoundaryLens() {
		if !c.Mine(bi) || n == 0 {
			continue
		}
		for _, sp := range []string{"\n", "\r", "\x00", " ", "\x10", "\u00e9", ".", ""} {
			checkConst(c, gen.Pad("a", n)+sp)
			checkPrefix(c, "pre", gen.Pad("b-_1", n)+sp)
			checkPrefix(c, gen.Pad("p", n), gen.Pad("p", n)+"-x"+sp)
			checkPrefix(c, "row", "row-"+gen.Pad("7", n))
		}
	}
	r := c.Rng("soup")
	atoms := []string{"a", "B", "0", "9", "-", "_", "\n", "\x00", " ", "é", "٣", "́", "\xff", ".", ":", "<", "\"", "ab", "id"}
	for i := 0; i < c.N(300000, 3000000)/c.NShards; i++ {
		s := gen.Soup(r, atoms, r.Intn(8))
		checkConst(c, s)
		checkPrefix(c, gen.Soup(r, atoms[:6], 1+r.Intn(3)), s)
		if i < 3 {
			c.Sample(map[string]string{"value": util.Q(s)})
		}
	}
}
