// Package c15 monitors StyleFromProperties (property C15).
package c15

import (
	"encoding/json"
	"reflect"
	"strings"

	"github.com/google/safehtml"

	"verif/core"
	"verif/gen"
	"verif/oracle/csssyn"
	"verif/oracle/refs"
	"verif/util"
)

// kase is a StyleProperties assignment: field name -> quoted values.
type kase struct {
	Fields map[string][]string `json:"fields_quoted"`
}

var plain = []struct{ field, prop string }{
	{"Display", "display"}, {"BackgroundColor", "background-color"}, {"BackgroundPosition", "background-position"},
	{"BackgroundRepeat", "background-repeat"}, {"BackgroundSize", "background-size"}, {"Color", "color"}, {"Height", "height"},
	{"Width", "width"}, {"Left", "left"}, {"Right", "right"}, {"Top", "top"}, {"Bottom", "bottom"}, {"FontWeight", "font-weight"},
	{"Padding", "padding"}, {"ZIndex", "z-index"},
}

const innocuousVal = "zGoSafezInvalidPropertyValue"

func init() {
	core.Register(&core.Monitor{
		ID:    "C15",
		Level: "exploration",
		Rule: "inputs: StyleProperties assignments: every field and list element alone with every corpus string (CSS metacharacters, comment markers, escapes, newlines, controls, non-ASCII, invalid UTF-8, url(/expression(, javascript: URLs), all pairs of fields with a reduced corpus, seeded full assignments and soups/mutations; " +
			"result parsed with an independent CSS Syntax Level 3 'consume a list of declarations'; non-trivial = some value contains a non-alphanumeric byte; distinct by assignment",
		Assumptions: []string{"oracle: csssyn (own CSS Syntax Level 3 tokenizer/parser, self-tested), refs.Scheme; documented alphabets taken from the comments in style.go and the property text"},
		Run:         run,
		Replay:      replay,
		MinDistinct: func(string) int64 { return 20000 },
	})
}

func replay(c *core.Ctx, raw json.RawMessage) error {
	var k kase
	if err := json.Unmarshal(raw, &k); err != nil {
		return err
	}
	f := map[string][]string{}
	for n, v := range k.Fields {
		f[n] = util.Unqs(v)
	}
	check(c, f)
	return nil
}

func mk(f map[string][]string) kase {
	k := kase{Fields: map[string][]string{}}
	for n, v := range f {
		k.Fields[n] = util.Qs(v)
	}
	return k
}

func inRegularAlphabet(v string) bool {
	for i := 0; i < len(v); i++ {
		b := v[i]
		ok := '0' <= b && b <= '9' || 'a' <= b && b <= 'z' || 'A' <= b && b <= 'Z' || strings.IndexByte("+-.!#%_ \t*/", b) >= 0
		if !ok {
			return false
		}
	}
	return !strings.Contains(v, "//") && !strings.Contains(v, "/*") && !strings.Contains(v, "*/")
}

func inEnumAlphabet(v string) bool {
	for i := 0; i < len(v); i++ {
		b := v[i]
		if !('a' <= b && b <= 'z' || 'A' <= b && b <= 'Z' || b == '-') {
			return false
		}
	}
	return true
}

func rawOf(ts []csssyn.Token) string {
	var b strings.Builder
	for _, t := range ts {
		b.WriteString(t.Raw)
	}
	return b.String()
}

// cssCoerce is what any CSS string can hold of s: NUL and invalid bytes become U+FFFD.
func cssCoerce(s string) string {
	var b strings.Builder
	for _, r := range s {
		if r == 0 {
			r = 0xFFFD
		}
		b.WriteRune(r)
	}
	return b.String()
}

func escapedByLib(r rune) bool {
	return r == '<' || r == '"' || r == '\\' || r <= 0x1F || r == 0x7F || r >= 0x80 && r <= 0x9F || r == 0x2028 || r == 0x2029
}

// eqModSwallowedSpace compares the decoded CSS string got with want, allowing a single
// space after a character the library writes as a hex escape to be missing (CSS consumes
// one whitespace after an escape; the property does not speak about this fidelity quirk).
func eqModSwallowedSpace(want, got string) (equal, quirk bool) {
	w := []rune(cssCoerce(want))
	var exp []rune
	for i := 0; i < len(w); i++ {
		if w[i] == ' ' && i > 0 && escapedByLib(w[i-1]) {
			// the space directly after a hex escape is always consumed by a CSS tokenizer
			quirk = true
			continue
		}
		exp = append(exp, w[i])
	}
	return string(exp) == got, quirk
}

func splitCommas(ts []csssyn.Token) [][]csssyn.Token {
	var out [][]csssyn.Token
	cur := []csssyn.Token{}
	depth := 0
	for _, t := range ts {
		switch t.Kind {
		case csssyn.Function, csssyn.LParen, csssyn.LBracket, csssyn.LBrace:
			depth++
		case csssyn.RParen, csssyn.RBracket, csssyn.RBrace:
			depth--
		}
		if t.Kind == csssyn.Comma && depth == 0 {
			out = append(out, cur)
			cur = []csssyn.Token{}
			continue
		}
		cur = append(cur, t)
	}
	return append(out, cur)
}

func trimWS(ts []csssyn.Token) []csssyn.Token {
	for len(ts) > 0 && ts[0].Kind == csssyn.Whitespace {
		ts = ts[1:]
	}
	for len(ts) > 0 && ts[len(ts)-1].Kind == csssyn.Whitespace {
		ts = ts[:len(ts)-1]
	}
	return ts
}

func check(c *core.Ctx, f map[string][]string) {
	c.Eval(1)
	var p safehtml.StyleProperties
	pv := reflect.ValueOf(&p).Elem()
	nontriv := false
	for n, vals := range f {
		fv := pv.FieldByName(n)
		if !fv.IsValid() {
			continue
		}
		if fv.Kind() == reflect.Slice {
			fv.Set(reflect.ValueOf(vals))
		} else if len(vals) > 0 {
			fv.SetString(vals[0])
		}
		for _, v := range vals {
			for i := 0; i < len(v); i++ {
				b := v[i]
				if !('a' <= b && b <= 'z' || 'A' <= b && b <= 'Z' || '0' <= b && b <= '9') {
					nontriv = true
				}
			}
		}
	}
	k := mk(f)
	c.Note(func() interface{} { return k })
	if nontriv {
		c.DistinctS(util.JSON(k))
	}
	var res string
	if pn := core.Recover(func() { res = safehtml.StyleFromProperties(p).String() }); pn != nil {
		c.Violation(k, "StyleFromProperties panicked: %v", pn)
		return
	}
	// expected declarations
	var want []string
	if len(p.BackgroundImageURLs) > 0 {
		want = append(want, "background-image")
	}
	if len(p.FontFamily) > 0 {
		want = append(want, "font-family")
	}
	for _, pl := range plain {
		if pv.FieldByName(pl.field).String() != "" {
			want = append(want, pl.prop)
		}
	}
	if res != "" && !strings.HasSuffix(res, ";") {
		c.Violation(k, "result %+q does not end with ';'", res)
		return
	}
	if len(want) == 0 && res != "" {
		c.Violation(k, "no field set but result is %+q", res)
		return
	}
	if strings.Contains(res, "<") {
		c.Violation(k, "result %+q contains '<'", res)
		return
	}
	for _, t := range csssyn.Tokenize(res) {
		switch {
		case t.Kind == csssyn.Comment:
			c.Violation(k, "result %+q contains a comment %+q", res, t.Raw)
			return
		case t.Kind == csssyn.BadString || t.Kind == csssyn.BadURL || t.Unterminated:
			c.Violation(k, "result %+q contains the ill-formed token %s %+q", res, t.Kind, t.Raw)
			return
		case t.Kind == csssyn.LBrace || t.Kind == csssyn.RBrace || t.Kind == csssyn.AtKeyword:
			c.Violation(k, "result %+q contains the token %s %+q", res, t.Kind, t.Raw)
			return
		}
	}
	dl := csssyn.ParseDeclarationList(res)
	var got []string
	for _, d := range dl.Decls {
		got = append(got, d.Name)
	}
	if dl.Junk != 0 || dl.Unclosed || strings.Join(got, ",") != strings.Join(want, ",") {
		c.Violation(k, "result %+q parses to declarations %v (junk=%d unclosed=%v), want exactly %v", res, got, dl.Junk, dl.Unclosed, want)
		return
	}
	di := 0
	if len(p.BackgroundImageURLs) > 0 {
		parts := splitCommas(dl.Decls[di].Value)
		di++
		if len(parts) != len(p.BackgroundImageURLs) {
			c.Violation(k, "background-image has %d comma-separated values for %d URLs in %+q", len(parts), len(p.BackgroundImageURLs), res)
			return
		}
		for i, part := range parts {
			part = trimWS(part)
			u := p.BackgroundImageURLs[i]
			var decoded string
			switch {
			case len(part) == 3 && part[0].Kind == csssyn.Function && strings.EqualFold(part[0].Value, "url") && part[1].Kind == csssyn.String && part[2].Kind == csssyn.RParen:
				decoded = part[1].Value
			case len(part) == 1 && part[0].Kind == csssyn.URL:
				decoded = part[0].Value
			default:
				c.Violation(k, "background-image value %d is not a single url(): %+q", i, rawOf(part))
				return
			}
			if refs.Scheme(decoded) == "javascript" {
				c.Violation(k, "background-image URL %d decodes to %+q with the javascript scheme (input %+q)", i, decoded, u)
				return
			}
			if s := safehtml.URLSanitized(decoded).String(); s != decoded {
				c.Violation(k, "background-image URL %d decodes to %+q, which URLSanitized does not approve (input %+q)", i, decoded, u)
				return
			}
			// exactly: a space after an escaped character must survive (K107)
			if cssCoerce(safehtml.URLSanitized(u).String()) != decoded {
				c.Violation(k, "background-image URL %d decodes to %+q, not to the sanitized input %+q", i, decoded, safehtml.URLSanitized(u).String())
				return
			}
		}
	}
	if len(p.FontFamily) > 0 {
		parts := splitCommas(dl.Decls[di].Value)
		di++
		if len(parts) != len(p.FontFamily) {
			c.Violation(k, "font-family has %d comma-separated values for %d names in %+q", len(parts), len(p.FontFamily), res)
			return
		}
		for i, part := range parts {
			part = trimWS(part)
			name := p.FontFamily[i]
			if len(part) != 1 || part[0].Kind != csssyn.Ident && part[0].Kind != csssyn.String {
				c.Violation(k, "font-family value %d is not one ident or string: %+q (name %+q)", i, rawOf(part), name)
				return
			}
			inner := name
			if len(name) >= 3 && strings.HasPrefix(name, `"`) && strings.HasSuffix(name, `"`) {
				inner = name[1 : len(name)-1]
			}
			exact := cssCoerce(name) == part[0].Value || cssCoerce(inner) == part[0].Value
			eq1, _ := eqModSwallowedSpace(name, part[0].Value)
			eq2, _ := eqModSwallowedSpace(inner, part[0].Value)
			if !exact && (eq1 || eq2) && !c.Strict {
				// known finding K107b: in font-family names the space after an escaped character
				// is consumed by CSS parsers (TestStyleFromProperties pins the output)
				c.Count("excluded_K107b_space_after_escape_in_font_name", 1)
			} else if !exact {
				c.Violation(k, "font-family value %d decodes to %+q for name %+q", i, part[0].Value, name)
				return
			}
		}
	}
	for _, pl := range plain {
		in := pv.FieldByName(pl.field).String()
		if in == "" {
			continue
		}
		val := rawOf(dl.Decls[di].Value)
		di++
		inAlpha := inRegularAlphabet(in)
		if pl.field == "Display" {
			inAlpha = inEnumAlphabet(in)
		}
		if val == innocuousVal && in != innocuousVal {
			c.Count("plain_replaced", 1)
			continue
		}
		c.Count("plain_kept", 1)
		if !inAlpha {
			c.Violation(k, "%s value %+q is outside the documented alphabet but was emitted as %+q", pl.field, in, val)
			return
		}
		if val != strings.Trim(in, " \t") {
			c.Violation(k, "%s value %+q was emitted as %+q (neither verbatim nor the innocuous value)", pl.field, in, val)
			return
		}
	}
}

var allFields = []string{"BackgroundImageURLs", "FontFamily", "Display", "BackgroundColor", "BackgroundPosition", "BackgroundRepeat", "BackgroundSize", "Color", "Height", "Width", "Left", "Right", "Top", "Bottom", "FontWeight", "Padding", "ZIndex"}

func corpus() []string {
	cp := []string{
		"red", "10px", "1em 2em", "100%", "#fff", "#00ff00", "auto", "none", "inline-block", "bold", "700", "-1", "+1.5e3", "0", "50% 50%", "1px,2px", "1px, 2px", "a,b", ",", "a;b", ";", "a:b", ":", "red;color:blue", "red;}", "}", "{", "{}", "a{b}c",
		"(", ")", "()", "calc(1px)", "url(x)", "url(", "url(\"x\")", "url('x", "URL(javascript:alert(1))", "expression(alert(1))", "\"", "'", "\"x\"", "'x'", "\"x", "x\"", "\\", "\\;", "\\3b ", "\\00003b", "\\\n", "\\\"", "a\\", "/", "*", "//", "/*", "*/", "/**/", "/* x */", "a/b", "a*b", "**", "* /", "/ *", "/ /", "1/2", "*a", "/a", "a/", "a*",
		"@", "@import", "@import 'x';", "!", "!important", "red !important", "<", ">", "</style>", "<!--", "-->", "<b>", "\n", "\r", "\f", "\t", " ", "  ", "a\nb", "a\tb", "red\n;color:blue", "\x00", "a\x00b", "\x7f", "\u0080", " ", " ", "é", "日本", "\xff", "\xc3", "a\xffb",
		"javascript:alert(1)", "JaVaScRiPt:x", "java\tscript:x", "http://x/y.png", "https://e.com/a b.png", "/img.png", "x y", "a\"b", "a\\b", "a<b", "a) b(", "x\" ), url(\"//evil", "\\\") , url(//evil", "a b", "a&b", "&amp;", "a=b", "a?b#c", "data:image/png;base64,AAAA", "about:invalid#zGoSafez", "zGoSafezInvalidPropertyValue",
		"\u212a", "\u017f", "a\u212ab", "ſans-serif", "\u212aelvin", "1\u212a", "\u0131", "\uff41", "10p\u212a",
		"Arial", "sans-serif", "Times New Roman", "\"Times New Roman\"", "\"\"", "\"a\"", "\"", "a\"", "\"a", "\"a\"b\"", "-a", "a-", "a--b", "A", "ab", "a1", "1a", "a_b", "a.b", "a,b", "serif, x", "x;y", "x}y", "\\\"x\\\"", "<x>", "x\ny",
	}
	return cp
}

func run(c *core.Ctx) {
	cp := corpus()
	idx := 0
	// every field / list element alone
	for _, fld := range allFields {
		for _, s := range cp {
			idx++
			if !c.Mine(idx) {
				continue
			}
			check(c, map[string][]string{fld: {s}})
			if fld == "BackgroundImageURLs" || fld == "FontFamily" {
				check(c, map[string][]string{fld: {s, "x"}})
				check(c, map[string][]string{fld: {"x", s}})
				check(c, map[string][]string{fld: {s, s}})
			}
		}
	}
	c.SetExhaustive("every field alone x corpus")
	// all pairs of fields with a reduced corpus
	small := []string{"red", ";", "a;b:c", "\"", "\\", "/*", "*/", "(", "url(", "}", "\n", "<", "x\" ), url(\"//evil", "a,b", "javascript:alert(1)", "\xff"}
	for i, f1 := range allFields {
		for _, f2 := range allFields[i+1:] {
			for _, s1 := range small {
				for _, s2 := range small {
					idx++
					if !c.Mine(idx) {
						continue
					}
					check(c, map[string][]string{f1: {s1}, f2: {s2}})
				}
			}
		}
	}
	c.SetExhaustive("all pairs of fields x reduced corpus")
	for _, n := range gen.BoundaryLens() {
		idx++
		if !c.Mine(idx) {
			continue
		}
		for _, sp := range []string{";", "\"", "\\", "/*", ":", "}", "\n", "<", "\xe2\""} {
			v := gen.Pad("a", n) + sp
			check(c, map[string][]string{"Width": {v}, "Color": {"red"}})
			check(c, map[string][]string{"FontFamily": {v, "x"}})
			check(c, map[string][]string{"BackgroundImageURLs": {"/" + v}})
			check(c, map[string][]string{"Display": {gen.Pad("block", n)}, "Width": {gen.Pad("block", n)}})
		}
	}
	// the same value in different fields, one after the other (results must not depend on history)
	for i := 0; i < 50; i++ {
		for _, v := range []string{"7px 3em", "#fff", "50%", "1/2", "none !important", "12em", "block", "a,b"} {
			check(c, map[string][]string{"Width": {v}})
			check(c, map[string][]string{"Display": {v}})
			check(c, map[string][]string{"Display": {v}, "Width": {v}})
		}
	}
	// seeded full assignments
	r := c.Rng("full")
	n := c.N(400000, 6000000) / c.NShards
	for i := 0; i < n; i++ {
		f := map[string][]string{}
		nf := 1 + r.Intn(6)
		if r.Intn(10) == 0 {
			nf = len(allFields)
		}
		for j := 0; j < nf; j++ {
			fld := allFields[r.Intn(len(allFields))]
			cnt := 1
			if fld == "BackgroundImageURLs" || fld == "FontFamily" {
				cnt = 1 + r.Intn(3)
			}
			var vals []string
			for q := 0; q < cnt; q++ {
				var s string
				switch r.Intn(5) {
				case 0:
					s = gen.Soup(r, gen.CSSAtoms, 1+r.Intn(5))
				case 1:
					s = gen.Mutate(r, cp[r.Intn(len(cp))], gen.CSSAtoms)
				case 2:
					s = gen.Soup(r, []string{"a", "1", " ", "\t", "+", "-", ".", "!", "#", "%", "_", "/", "*", ",", "px"}, 1+r.Intn(8))
				default:
					s = cp[r.Intn(len(cp))]
				}
				vals = append(vals, s)
			}
			f[fld] = vals
		}
		check(c, f)
		if i < 2 {
			c.Sample(mk(f))
		}
	}
}
