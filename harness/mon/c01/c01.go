// Package c01 monitors "markup structure is never altered by untrusted data" (C01).
package c01

import (
	"encoding/json"
	"fmt"
	"strings"
	"text/template/parse"

	"verif/core"
	"verif/gen"
	"verif/oracle/htmltok"
	"verif/tx"
	"verif/util"
)

type kase struct {
	Text    string       `json:"template_quoted"`
	Hostile gen.DataSpec `json:"hostile"`
	Inert   gen.DataSpec `json:"inert"`
}

func init() {
	core.Register(&core.Monitor{
		ID:    "C01",
		Level: "exploration",
		Rule: "templates from a grammar (tags/attributes in all lexical variants, special elements with tricky bodies and end-tag spellings, comments, doctype, svg/math/xmp/noscript/plaintext, if/else-if/range/with/define/template incl. tag-tearing branches and context-changing helpers, actions in every position) plus a fixed battery of lexical edge templates; " +
			"each accepted template is executed with hostile assignments (markup-breaking strings around a unique marker in every leaf) and the inert assignment with the same truthiness/list lengths; outputs are tokenized by an independent WHATWG tokenizer in three tree-builder modes (HTML, foreign-aware, scripting). " +
			"Oracles: (1) structure(hostile) == structure(inert); (2) structure(engine, inert) == structure(text/template rendering of the same text, comments removed) and no comment token, outside the K01/K17 static-text classes; (3) every marker lies in a text token or a quoted attribute value. " +
			"non-trivial = accepted template with >=1 action whose hostile datum was rendered; distinct by template text",
		Assumptions: []string{
			"oracle: htmltok (own WHATWG tokenizer with minimal tree-builder feedback, self-tested); text/template as the author's-markup renderer",
			"generated data drive control flow only through truthiness and list length, which hostile and inert assignments share",
		},
		Run:         run,
		Replay:      replay,
		MinDistinct: func(t string) int64 { return 500 },
	})
}

func replay(c *core.Ctx, raw json.RawMessage) error {
	var k kase
	if err := json.Unmarshal(raw, &k); err != nil {
		return err
	}
	checkOne(c, util.Unq(k.Text), k.Hostile, k.Inert, true)
	return nil
}

var modes = []struct {
	name string
	opt  htmltok.Options
}{
	{"html", htmltok.Options{}},
	{"foreign", htmltok.Options{Foreign: true}},
	{"scripting", htmltok.Options{Scripting: true}},
}

// staticClass inspects the static text of the template for the two classes on which the
// engine's reading of static text and HTML5's differ by design (known findings K17, K01):
// it returns "" or the class.
func staticClass(text string) map[string]bool {
	trees, err := parse.Parse("root", text, "{{", "}}", map[string]interface{}{"html": 1, "urlquery": 1, "print": 1, "printf": 1})
	class := map[string]bool{}
	if err != nil {
		return class
	}
	var walk func(n parse.Node)
	walk = func(n parse.Node) {
		switch n := n.(type) {
		case *parse.ListNode:
			if n == nil {
				return
			}
			// text nodes separated only by a template comment are adjacent bytes of the output:
			// they are classified as one text
			run := ""
			flush := func() {
				for _, c := range textClasses(run) {
					class[c] = true
				}
				run = ""
			}
			for _, m := range n.Nodes {
				if t, ok := m.(*parse.TextNode); ok {
					run += string(t.Text)
					continue
				}
				flush()
				walk(m)
			}
			flush()
		case *parse.TextNode:
			for _, c := range textClasses(string(n.Text)) {
				class[c] = true
			}
		case *parse.IfNode:
			walk(n.List)
			walk(n.ElseList)
		case *parse.RangeNode:
			walk(n.List)
			walk(n.ElseList)
		case *parse.WithNode:
			walk(n.List)
			walk(n.ElseList)
		}
	}
	for _, t := range trees {
		if t.Root != nil {
			walk(t.Root)
		}
	}
	return class
}

func isAlpha(b byte) bool { return 'a' <= b && b <= 'z' || 'A' <= b && b <= 'Z' }

// textClass: K17 = a '<' not followed by a letter, '/'+letter, '!--' or '!doctype';
// K01 = an abruptly closed comment ('<!-->', '<!--->'; '--!>' was K01 too until 359780f).
func textClasses(s string) (out []string) {
	for i := 0; i < len(s); i++ {
		if s[i] != '<' {
			continue
		}
		rest := s[i+1:]
		switch {
		case len(rest) > 0 && isAlpha(rest[0]):
			if tagNameOddEnd(rest) {
				out = append(out, "odd-tag-name-end") // was the exclusion class of K28 until c14b79b
			}
		case len(rest) > 1 && rest[0] == '/' && isAlpha(rest[1]):
			if tagNameOddEnd(rest[1:]) {
				out = append(out, "odd-tag-name-end")
			}
		case strings.HasPrefix(rest, "!--"):
			body := rest[3:]
			if strings.HasPrefix(body, ">") || strings.HasPrefix(body, "->") {
				out = append(out, "K01")
			}
		case len(rest) >= 8 && strings.EqualFold(rest[:8], "!doctype"):
		default:
			out = append(out, "K17")
		}
	}
	return out
}

// tagNameOddEnd: the tag name (as the engine reads it: letters, digits, ':' or '-' followed by
// a letter or digit) is followed by a byte other than ASCII white space, '/' or '>'. HTML5
// continues the tag name there, the engine ends it (known finding K28).
func tagNameOddEnd(s string) bool {
	i := 0
	for i < len(s) {
		c := s[i]
		alnum := isAlpha(c) || '0' <= c && c <= '9'
		if alnum {
			i++
			continue
		}
		if (c == ':' || c == '-') && i+1 < len(s) && (isAlpha(s[i+1]) || '0' <= s[i+1] && s[i+1] <= '9') {
			i += 2
			continue
		}
		break
	}
	if i >= len(s) {
		return false
	}
	switch s[i] {
	case ' ', '\t', '\n', '\f', '\r', '/', '>':
		return false
	}
	return true
}

func tokAll(s string) []htmltok.Result {
	out := make([]htmltok.Result, len(modes))
	for i, m := range modes {
		out[i] = htmltok.Tokenize(s, m.opt)
	}
	return out
}

func eqS(a, b []string) bool {
	if len(a) != len(b) {
		return false
	}
	for i := range a {
		if a[i] != b[i] {
			return false
		}
	}
	return true
}

func hasComment(s []string) bool {
	for _, e := range s {
		if e == "<!---->" {
			return true
		}
	}
	return false
}

// checkOne runs the three oracles on one (template, hostile, inert).
func checkOne(c *core.Ctx, text string, hs, is gen.DataSpec, verbose bool) {
	c.Eval(1)
	k := kase{Text: util.Q(text), Hostile: hs, Inert: is}
	rI := tx.Run(text, is.Build())
	rH := tx.Run(text, hs.Build())
	if rI.Panic != nil || rH.Panic != nil {
		c.Count("panics_skipped", 1)
		return
	}
	if rI.ParseErr != nil {
		c.Count("parse_errors", 1)
		return
	}
	if verbose {
		fmt.Printf("  template: %s\n  inert:   %q err=%v\n  hostile: %q err=%v\n", text, rI.Out, rI.ExecErr, rH.Out, rH.ExecErr)
	}
	c.Hist("inert_result", tx.ErrClass(rI.ExecErr))
	if rH.ExecErr != nil {
		c.Hist("hostile_result", tx.ErrClass(rH.ExecErr))
	}
	class := staticClass(text)
	var tokI []htmltok.Result
	// modeDep[i]: the author's own markup (text/template rendering with the inert values)
	// has a different structure in mode i than in plain HTML mode, i.e. it places raw-text /
	// RCDATA elements inside svg/math (known finding K21): the engine has no notion of
	// foreign content, so oracles 2 and 3 are not applied in that mode.
	modeDep := make([]bool, len(modes))
	if rI.ExecErr == nil {
		tokI = tokAll(rI.Out)
		c.Count("accepted_inert_executions", 1)
		ref, err := tx.RunText(text, is.Build())
		if err == nil {
			var sRef [][]string
			for _, m := range modes {
				sRef = append(sRef, htmltok.Structure(htmltok.Tokenize(ref, m.opt)))
			}
			for i := range modes {
				modeDep[i] = !eqS(sRef[i], sRef[0])
			}
			// oracle 2
			// (K01 also where the abrupt end of the comment is made by a branch, as in
			// `<!--{{with .X}}>{{end}}`: the class is read off the author's rendering too)
			abrupt := false
			for _, cl := range textClasses(ref) {
				if cl == "K01" {
					abrupt = true
				}
			}
			if abrupt && len(class) == 0 && !c.Strict {
				c.Count("oracle2_excluded_by_known:K01 (in the rendering)", 1)
			} else if len(class) == 0 || c.Strict {
				c.Count("oracle2_compared", 1)
				for i, m := range modes {
					if modeDep[i] && !c.Strict {
						c.Count("oracle2_mode_excluded_by_known:K21", 1)
						continue
					}
					sOut := htmltok.Structure(tokI[i])
					if hasComment(sOut) {
						c.Violation(k, "[engine vs author, %s] output contains a comment token: template %q -> %q", m.name, text, rI.Out)
						return
					}
					if !eqS(sOut, htmltok.NoComments(sRef[i])) {
						c.Violation(k, "[engine vs author, %s] template %q renders as %q with structure %v; the author's markup %q has structure %v", m.name, text, rI.Out, sOut, ref, htmltok.NoComments(sRef[i]))
						return
					}
				}
			} else {
				for k := range class {
					c.Count("oracle2_excluded_by_known:"+k, 1)
				}
			}
		}
	}
	if rH.ExecErr != nil {
		return
	}
	c.Count("accepted_hostile_executions", 1)
	tokH := tokAll(rH.Out)
	// oracle 1
	if class["K28"] && !c.Strict {
		c.Count("oracle1_excluded_by_known:K28", 1)
	} else if rI.ExecErr == nil {
		c.Count("oracle1_compared", 1)
		for i, m := range modes {
			sh, si := htmltok.Structure(tokH[i]), htmltok.Structure(tokI[i])
			if !eqS(sh, si) {
				c.Violation(k, "[data vs inert, %s] template %q: hostile output %q has structure %v, inert output %q has structure %v", m.name, text, rH.Out, sh, rI.Out, si)
				return
			}
		}
	}
	// oracle 3
	if class["K28"] && !c.Strict {
		// the engine and HTML5 disagree on which element this is (known finding K28): where the
		// datum lies in the browser's reading is not what the engine analysed
		c.Count("oracle3_excluded_by_known:K28", 1)
		c.DistinctS(text)
		return
	}
	rendered := false
	for i, m := range modes {
		if modeDep[i] && !c.Strict {
			c.Count("oracle3_mode_excluded_by_known:K21", 1)
			continue
		}
		in := tokH[i].Input
		for pos := 0; ; {
			j := strings.Index(in[pos:], "zQ")
			if j < 0 {
				break
			}
			pos += j
			end := pos + 2
			for end < len(in) && in[end] >= '0' && in[end] <= '9' {
				end++
			}
			if end == pos+2 || end >= len(in) || in[end] != 'z' {
				pos += 2
				continue
			}
			rendered = true
			w := htmltok.Locate(tokH[i], pos)
			ok := w.Kind == "text" || w.Kind == "attr-value" && w.Quote != 0
			if i == 0 {
				c.Hist("marker_location", w.Kind+":"+w.Mode)
			}
			if !ok {
				if w.Kind == "doctype" && !c.Strict {
					c.Count("oracle3_excluded_by_known:K16", 1)
				} else {
					c.Violation(k, "[marker location, %s] template %q: datum %s of output %q lies in %s, not in a text node or quoted attribute value", m.name, text, in[pos:end+1], rH.Out, w.Kind)
					return
				}
			}
			pos = end
		}
	}
	if rendered {
		c.DistinctS(text)
	}
}

var breakers = []string{"\">", "'>", "\"", "'", ">", "<", "</", "<b>", "</script>", "</textarea>", "</title>", "</style>", "-->", "--!>", "<!--", "<script>", " x=y ", "\" onmouseover=\"alert(1)", "' onx='", "`", "=", "/>", " />", "\x00", "\n", "\r", "\f", "\t", " ", "&", "&#", "&lt", "&quot;", "]]>", "\xff", "\xc0\xbc", "\xe2\x80", "javascript:", "</SCRIPT >", "</tExTaReA\n>", "<svg>", "<plaintext>", "<!DOCTYPE x>", "<?", "<!", "</p>", "<p title=\"", "\\", "\\\"", "%22%3e", "&#34;&#62;", " ", "\ufeff", "\U000e0001"}

func hostileLeaf(r *core.Rng) func(i int) string {
	return func(i int) string {
		return gen.Soup(r, breakers, r.Intn(4)) + fmt.Sprintf("zQ%dz", i) + gen.Soup(r, breakers, r.Intn(4))
	}
}

func run(c *core.Ctx) {
	r := c.Rng("templates")
	nT := c.N(40000, 400000) / c.NShards
	nA := c.N(6, 12)
	for i := 0; i < nT; i++ {
		o := gen.TmplOpts{Lexical: 30, Control: 40, Helpers: 25, Tear: 15, Odd: 20, BadPos: 10, MaxDepth: 3, HelperInAttrOnce: false}
		switch i % 5 {
		case 1:
			o.Lexical, o.Odd = 70, 40
		case 2:
			o.Control, o.Helpers, o.Tear = 70, 50, 30
		case 3:
			o.NoStrayLT = true // keeps oracle 2 applicable
			o.Odd = 30
		case 4:
			o.URLHeavy = true
		}
		t := gen.GenTemplate(r, o)
		c.Journal(util.JSON(map[string]string{"template": t.Text}))
		for _, f := range t.Features {
			c.Hist("features", f)
		}
		for a := 0; a < nA; a++ {
			hs, is := gen.GenData(r, hostileLeaf(r))
			checkOne(c, t.Text, hs, is, false)
			if i < 2 && a == 0 {
				c.Sample(kase{Text: util.Q(t.Text), Hostile: hs, Inert: is})
			}
		}
	}
	// tag-syntax soups: static text assembled from the bytes that delimit tags, attribute names
	// and values, with actions in between; the engine decides what it accepts, and every
	// accepted template is judged like the others (a "<" is never the last byte before an
	// action, so that class K17 stays out)
	rs := c.Rng("soup")
	nS := c.N(240000, 4000000) / c.NShards
	for i := 0; i < nS; i++ {
		text := tagSoup(rs)
		c.Journal(util.JSON(map[string]string{"template": text}))
		for a := 0; a < 3; a++ {
			hs, is := gen.GenData(rs, hostileLeaf(rs))
			checkOne(c, text, hs, is, false)
		}
	}
	// torn text: the static text of generated and battery templates is split by template
	// comments ({{/**/}}), so that tag names, delimiters, end tags and character references
	// arrive in two text nodes (own stream: the cases above are the same with and without it)
	rt := c.Rng("torn-text")
	nP := c.N(12000, 150000) / c.NShards
	for i := 0; i < nP; i++ {
		var text string
		if i%3 == 0 {
			text = battery[rt.Intn(len(battery))]
		} else {
			o := gen.TmplOpts{Lexical: 40, Control: 30, Helpers: 20, Tear: 10, Odd: 25, BadPos: 5, MaxDepth: 2, HelperInAttrOnce: false}
			if i%3 == 1 {
				o.URLHeavy = true
			}
			text = gen.GenTemplate(rt, o).Text
		}
		text = gen.SplitText(rt, text, 1+rt.Intn(3))
		c.Journal(util.JSON(map[string]string{"template": text}))
		c.Count("templates_with_torn_text", 1)
		for a := 0; a < 3; a++ {
			hs, is := gen.GenData(rt, hostileLeaf(rt))
			checkOne(c, text, hs, is, false)
		}
	}
	// fixed battery
	for i, text := range battery {
		if !c.Mine(i) {
			continue
		}
		for a := 0; a < nA*2; a++ {
			hs, is := gen.GenData(r, hostileLeaf(r))
			checkOne(c, text, hs, is, false)
		}
	}
}


var soupNames = []string{"a", "p", "b", "i", "div", "script", "style", "textarea", "title", "svg", "object", "iframe", "br", "img", "input", "link", "x-y", "a:b"}
var soupAttrs = []string{"title", "href", "id", "alt", "data-x", "x", "src", "lang", "value"}
var soupPunct = []string{"<", "</", ">", "/>", "/", "=", "\"", "'", " ", " ", "\n", "\t", "\f", "\r", ".", "_", "-", ":", "\x00", "<!--", "-->", "--!>", "</script>", "</textarea>", "</title", "</style >", "x", "&", ";", "`", "=\"\"", "=''"}
var soupActs = []string{`{{$.S0}}`, `"{{$.S0}}"`, `='{{$.S1}}'`, `="{{$.S0}}"`, ` title="{{$.S1}}"`, ` alt='{{$.S0}}'`, `>{{$.S0}}<`, `{{/**/}}`, `{{if $.C0}} {{end}}`, `{{if $.C1}}x{{end}}`, `{{if $.C0}}"{{else}}'{{end}}`, `{{with $.S7}}>{{end}}`}

var soupBases = []string{
	`<a title="v" alt="{{$.S0}}">y</a>`, `<p title="{{$.S0}}">y</p>`, `<a href="/x" title='{{$.S0}}'>y</a>`, `<p>{{$.S0}}</p>`, `<b id="i">{{$.S0}}</b>`,
	`<script>{{$.S0}}</script>`, `<script>x()</script>{{$.S0}}`, `<style>{{$.S0}}</style>`, `<textarea>{{$.S0}}</textarea>{{$.S1}}`, `<title>{{$.S0}}</title><p>{{$.S1}}</p>`,
	`<img alt="{{$.S0}}">`, `<input value="{{$.S0}}" title="w">`, `<br title="{{$.S0}}"/>z`, `<svg><a title="{{$.S0}}">y</a></svg>`, `<object><param value="{{$.S0}}"></object>`,
	`<div><!-- c -->{{$.S0}}</div>`, `<a title="v"{{if $.C0}} lang="en"{{end}} alt="{{$.S0}}">y</a>`, `<p title="a{{$.S0}}b" alt='c{{$.S1}}d'>y</p>`,
}
var soupInserts = append([]string{"/=", "/=\"", ".=\"\"", "-=\"\"", " </script", " </style", "</textarea", "<", "<b", "</p", " =", "==", "\"\"", "''", "=\"", "='", "/ ", " / ", "//", "/>", "\x00=\"\"", "_x", ".x", ":", "{{/**/}}", "{{if $.C1}} {{end}}", "{{if $.C1}}\"{{end}}"}, soupPunct...)

// tagSoup makes one template text: a well-formed base with an action, damaged by a few seeded
// mutations (insert a delimiter sequence, replace a white space by one, delete a byte), or, one
// time in four, a free soup of such pieces.
func tagSoup(r *core.Rng) string {
	pick := func(l []string) string { return l[r.Intn(len(l))] }
	if r.Intn(4) > 0 {
		t := pick(soupBases)
		for k := 1 + r.Intn(3); k > 0; k-- {
			// positions outside {{...}}
			var pos []int
			depth := false
			for i := 0; i < len(t); i++ {
				if strings.HasPrefix(t[i:], "{{") {
					depth = true
				}
				if !depth {
					pos = append(pos, i)
				}
				if i > 0 && strings.HasPrefix(t[i-1:], "}}") {
					depth = false
				}
			}
			if len(pos) == 0 {
				break
			}
			p := pos[r.Intn(len(pos))]
			switch r.Intn(4) {
			case 0, 1:
				t = t[:p] + pick(soupInserts) + t[p:]
			case 2:
				// replace the next white space
				if j := strings.IndexAny(t[p:], " \n\t"); j >= 0 && !strings.Contains(t[p:p+j], "{{") {
					t = t[:p+j] + pick(soupInserts) + t[p+j+1:]
				}
			default:
				if t[p] != '{' && t[p] != '}' {
					t = t[:p] + t[p+1:]
				}
			}
		}
		return strings.ReplaceAll(t, "<{{", "< {{")
	}
	var b strings.Builder
	n := 3 + r.Intn(12)
	for i := 0; i < n; i++ {
		switch k := r.Intn(10); {
		case k < 2:
			b.WriteString("<" + pick(soupNames))
		case k < 4:
			b.WriteString(pick(soupAttrs))
		case k < 7:
			b.WriteString(pick(soupPunct))
		case k < 9:
			b.WriteString(pick(soupActs))
		default:
			b.WriteString(" " + pick(soupAttrs) + "=\"v\"")
		}
	}
	b.WriteString(pick([]string{">", "\">", "'>", "", "></a>", "</script>"}))
	return strings.ReplaceAll(b.String(), "<{{", "< {{")
}
