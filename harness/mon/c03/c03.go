// Package c03 monitors "safe-type values bypass sanitization only in their own context;
// attribute values are always escaped" (C03).
package c03

import (
	"encoding/json"
	"fmt"
	"strings"

	"github.com/google/safehtml"
	uc "github.com/google/safehtml/uncheckedconversions"

	"verif/core"
	"verif/gen"
	"verif/oracle/htmltok"
	"verif/oracle/refs"
	"verif/tx"
	"verif/util"
)

type kase struct {
	Template string `json:"template_quoted"`
	Type     string `json:"type"`
	Ptr      int    `json:"pointer_depth"`
	Contents string `json:"contents_quoted"`
}

// cell is one sanitization context reachable from a template.
type cell struct {
	tmpl  string   // template with one action {{.}}
	attr  string   // attribute that holds the action ("" for element content)
	own   []string // safe types whose contract covers this context
	url   bool     // value is percent-normalised
}

var cells = []cell{
	// attribute values of end tags, attribute names continued by a later text node, "/" as
	// attribute separator: judged by the differential clause only (typed value == plain string)
	{`<div>x</div title="{{.}}">after<i>z</i>`, "", nil, false},
	{`<p>x</p data-x='{{.}}'><i>z</i>`, "", nil, false},
	{`<a>x</a href="{{.}}"><i>z</i>`, "", nil, false},
	{`<iframe src{{/*c*/}}doc="{{.}}" lang=en></iframe>`, "srcdoc", []string{"HTML"}, false}, // one attribute name for a browser, and (since K87) for the engine
	{`<div alt{{/*c*/}}x="{{.}}">z</div>`, "", nil, false},
	{`<img src{{/*c*/}}set='{{.}}'>`, "srcset", nil, false},
	{`<a/title="{{.}}">z</a>`, "", nil, false},
	{`<p>{{.}}</p><i>z</i>`, "", []string{"HTML"}, false},
	{`<div>a{{.}}b</div><i>z</i>`, "", []string{"HTML"}, false},
	{`{{.}}<i>z</i>`, "", []string{"HTML"}, false},
	// the self-closing syntax does not close an HTML element that is not void
	{`<textarea/>{{.}}</textarea><i>z</i>`, "", nil, false},
	{`<title />{{.}}</title><i>z</i>`, "", nil, false},
	{`<script/>{{.}}</script><i>z</i>`, "", []string{"Script"}, false},
	{`<script type="text/javascript"/>{{.}}</script><i>z</i>`, "", []string{"Script"}, false},
	{`<style media="x"/>{{.}}</style><i>z</i>`, "", []string{"StyleSheet"}, false},
	{`<textarea>{{.}}</textarea><i>z</i>`, "", nil, false},
	{`<title>{{.}}</title><i>z</i>`, "", nil, false},
	{`<script>{{.}}</script><i>z</i>`, "", []string{"Script"}, false},
	{`<script>var a = 1;{{.}}</script><i>z</i>`, "", []string{"Script"}, false},
	{`<style>{{.}}</style><i>z</i>`, "", []string{"StyleSheet"}, false},
	{`<style>a{}{{.}}</style><i>z</i>`, "", []string{"StyleSheet"}, false},
	{`<p title="{{.}}" lang=en>z</p>`, "title", nil, false},
	{`<p title='{{.}}' lang=en>z</p>`, "title", nil, false},
	{`<p title="x {{.}} y" lang=en>z</p>`, "title", nil, false},
	{`<p data-x="{{.}}" lang=en>z</p>`, "data-x", nil, false},
	{`<input value='{{.}}' lang=en>`, "value", nil, false},
	{`<img alt="{{.}}" lang=en>`, "alt", nil, false},
	{`<p class="{{.}}" lang=en>z</p>`, "class", nil, false},
	{`<iframe srcdoc="{{.}}" lang=en></iframe>`, "srcdoc", []string{"HTML"}, false},
	{`<iframe srcdoc='{{.}}' lang=en></iframe>`, "srcdoc", []string{"HTML"}, false},
	{`<p style="{{.}}" lang=en>z</p>`, "style", []string{"Style"}, false},
	{`<p style='color:red;{{.}}' lang=en>z</p>`, "style", []string{"Style"}, false},
	{`<p id="{{.}}" lang=en>z</p>`, "id", []string{"Identifier"}, false},
	{`<label for='{{.}}' lang=en>z</label>`, "for", []string{"Identifier"}, false},
	{`<input name="{{.}}" lang=en>`, "name", []string{"Identifier"}, false},
	{`<a href="{{.}}" lang=en>z</a>`, "href", []string{"URL", "TrustedResourceURL"}, true},
	{`<a href='{{.}}' lang=en>z</a>`, "href", []string{"URL", "TrustedResourceURL"}, true},
	{`<img src="{{.}}" lang=en>`, "src", []string{"URL", "TrustedResourceURL"}, true},
	{`<form action="{{.}}" lang=en></form>`, "action", []string{"URL"}, true},
	{`<button formaction='{{.}}' lang=en>z</button>`, "formaction", []string{"URL"}, true},
	{`<link rel="icon" href="{{.}}" lang=en>`, "href", []string{"URL", "TrustedResourceURL"}, true},
	{`<link rel="stylesheet" href="{{.}}" lang=en>`, "href", []string{"TrustedResourceURL"}, true},
	{`<script src="{{.}}" lang=en></script>`, "src", []string{"TrustedResourceURL"}, true},
	{`<iframe src='{{.}}' lang=en></iframe>`, "src", []string{"TrustedResourceURL"}, true},
	{`<a href="/p?q={{.}}" lang=en>z</a>`, "href", nil, true},
	{`<a href="/p/{{.}}" lang=en>z</a>`, "href", nil, true},
	{`<a href='https://example.com/{{.}}#f' lang=en>z</a>`, "href", nil, true},
	{`<form action="/p#{{.}}" lang=en></form>`, "action", nil, true},
	{`<script src="/static/{{.}}" lang=en></script>`, "src", nil, true},
	{`<script src='https://example.com/js/{{.}}.js' lang=en></script>`, "src", nil, true},
	{`<img srcset="{{.}}" lang=en>`, "srcset", nil, false},
	{`<p dir="{{.}}" lang=en>z</p>`, "dir", nil, false},
	{`<a target='{{.}}' lang=en>z</a>`, "target", nil, false},
	{`<img loading="{{.}}" lang=en>`, "loading", nil, false},
	{`<p onclick="{{.}}" lang=en>z</p>`, "onclick", nil, false},
	{`<p unknown="{{.}}" lang=en>z</p>`, "unknown", nil, false},
	{`<!-- {{.}} --><i>z</i>`, "", nil, false},
}

var types = []string{"HTML", "Script", "Style", "StyleSheet", "URL", "TrustedResourceURL", "Identifier"}

func mkTyped(typ, s string, ptr int) interface{} {
	var v interface{}
	switch typ {
	case "HTML":
		x := uc.HTMLFromStringKnownToSatisfyTypeContract(s)
		v = x
		if ptr >= 1 {
			p := &x
			v = p
			if ptr >= 2 {
				v = &p
			}
		}
	case "Script":
		x := uc.ScriptFromStringKnownToSatisfyTypeContract(s)
		v = x
		if ptr >= 1 {
			p := &x
			v = p
			if ptr >= 2 {
				v = &p
			}
		}
	case "Style":
		x := uc.StyleFromStringKnownToSatisfyTypeContract(s)
		v = x
		if ptr >= 1 {
			p := &x
			v = p
			if ptr >= 2 {
				v = &p
			}
		}
	case "StyleSheet":
		x := uc.StyleSheetFromStringKnownToSatisfyTypeContract(s)
		v = x
		if ptr >= 1 {
			p := &x
			v = p
			if ptr >= 2 {
				v = &p
			}
		}
	case "URL":
		x := uc.URLFromStringKnownToSatisfyTypeContract(s)
		v = x
		if ptr >= 1 {
			p := &x
			v = p
			if ptr >= 2 {
				v = &p
			}
		}
	case "TrustedResourceURL":
		x := uc.TrustedResourceURLFromStringKnownToSatisfyTypeContract(s)
		v = x
		if ptr >= 1 {
			p := &x
			v = p
			if ptr >= 2 {
				v = &p
			}
		}
	case "Identifier":
		x := uc.IdentifierFromStringKnownToSatisfyTypeContract(s)
		v = x
		if ptr >= 1 {
			p := &x
			v = p
			if ptr >= 2 {
				v = &p
			}
		}
	}
	return v
}

var _ = safehtml.InnocuousURL

func init() {
	core.Register(&core.Monitor{
		ID:    "C03",
		Level: "exploration",
		Rule: fmt.Sprintf("cells: %d sanitization contexts reachable from a template (element content, RCDATA, script and style bodies, every attribute-value class with and without static prefix, both quote styles, comment) x 7 safe types x pointer depth 0..2 x contents from a hostile corpus (quotes, angle brackets, markup, attribute breakers, URLs, CSS, controls, invalid UTF-8) and seeded soups. ", len(cells)) +
			"Oracles: outside its own context a typed value must give exactly the result (bytes, error or not) of the plain string with the same contents; in every attribute cell the output must have the token structure of the same template executed with inert contents of the same type, and where the value is emitted its decoded attribute value equals the contents up to percent-encoding. " +
			"non-trivial = contents contain a markup or URL metacharacter; distinct by (context, type, pointer depth, contents)",
		Assumptions: []string{"oracle: htmltok tokenizer and attribute-value decoder; the type/context matrix is the one stated in the property text", "typed values are built with the uncheckedconversions package from arbitrary contents"},
		Run:         run,
		Replay:      replay,
		MinDistinct: func(string) int64 { return 10000 },
	})
}

func replay(c *core.Ctx, raw json.RawMessage) error {
	var k kase
	if err := json.Unmarshal(raw, &k); err != nil {
		return err
	}
	t := util.Unq(k.Template)
	for _, cl := range cells {
		if cl.tmpl == t {
			check(c, cl, k.Type, k.Ptr, util.Unq(k.Contents))
			return nil
		}
	}
	// not one of the fixed cells: treat as attribute cell if it has an attribute action
	return fmt.Errorf("unknown cell template %q", t)
}

func isOwn(cl cell, typ string) bool {
	for _, o := range cl.own {
		if o == typ {
			return true
		}
	}
	return false
}

// looseEq: d equals s where each byte of s may appear as its %XX encoding.
func looseEq(d, s string) bool {
	i, j := 0, 0
	for i < len(s) {
		enc := j+2 < len(d) && d[j] == '%' && strings.EqualFold(d[j+1:j+3], fmt.Sprintf("%02x", s[i]))
		lit := j < len(d) && d[j] == s[i]
		switch {
		case enc && lit:
			// only '%' can match both ways: try both
			return looseEq(d[j+3:], s[i+1:]) || looseEq(d[j+1:], s[i+1:])
		case enc:
			i, j = i+1, j+3
		case lit:
			i, j = i+1, j+1
		default:
			return false
		}
	}
	return j == len(d)
}

func norm(s string) string {
	s = refs.Coerce(s)
	s = strings.ReplaceAll(s, "\r\n", "\n")
	return strings.ReplaceAll(s, "\r", "\n")
}

var inertContents = map[string]string{"HTML": "x", "Script": "x", "Style": "x", "StyleSheet": "x", "URL": "x", "TrustedResourceURL": "x", "Identifier": "x"}

func check(c *core.Ctx, cl cell, typ string, ptr int, s string) {
	c.Eval(1)
	k := kase{Template: util.Q(cl.tmpl), Type: typ, Ptr: ptr, Contents: util.Q(s)}
	if strings.ContainsAny(s, "<>\"'&:/;{}() \\") {
		c.DistinctS(cl.tmpl, typ, fmt.Sprint(ptr), s)
	}
	t, err, pn := tx.Parse(cl.tmpl)
	if err != nil || pn != nil {
		c.Count("parse_errors", 1)
		return
	}
	V := tx.Exec(t, mkTyped(typ, s, ptr))
	if V.Panic != nil {
		c.Count("panics_skipped", 1)
		return
	}
	own := isOwn(cl, typ)
	if !own {
		t2, _, _ := tx.Parse(cl.tmpl)
		P := tx.Exec(t2, s)
		if P.Panic != nil {
			c.Count("panics_skipped", 1)
			return
		}
		c.Count("differential_cells", 1)
		if V.Out != P.Out || (V.ExecErr == nil) != (P.ExecErr == nil) {
			c.Violation(k, "context %q: a %s value (pointer depth %d) with contents %+q gives (%+q, err=%v), the plain string gives (%+q, err=%v)", cl.tmpl, typ, ptr, s, V.Out, V.ExecErr, P.Out, P.ExecErr)
			return
		}
	} else {
		c.Count("own_context_cells", 1)
	}
	if V.ExecErr != nil {
		c.Hist("typed_result", tx.ErrClass(V.ExecErr))
		return
	}
	c.Hist("typed_result", "ok")
	if cl.attr == "" {
		return
	}
	// attribute cell: structure of the output vs the same template with inert contents of the same type
	t3, _, _ := tx.Parse(cl.tmpl)
	I := tx.Exec(t3, mkTyped(typ, inertContents[typ], 0))
	if !I.OK() {
		// the inert reference itself is rejected (e.g. enum contexts): compare with the static frame instead
		I = tx.Result{Out: strings.Replace(cl.tmpl, "{{.}}", "x", 1)}
	}
	c.Count("attribute_structure_checks", 1)
	for _, opt := range []htmltok.Options{{}, {Foreign: true}, {Scripting: true}} {
		rv, ri := htmltok.Tokenize(V.Out, opt), htmltok.Tokenize(I.Out, opt)
		sv, si := htmltok.Structure(rv), htmltok.Structure(ri)
		if strings.Join(sv, " ") != strings.Join(si, " ") {
			c.Violation(k, "context %q: a %s value with contents %+q changes the markup: output %+q has structure %v, with inert contents %v", cl.tmpl, typ, s, V.Out, sv, si)
			return
		}
	}
	// decoded attribute value
	res := htmltok.Tokenize(V.Out, htmltok.Options{})
	for i := range res.Tokens {
		tk := &res.Tokens[i]
		if tk.Type != htmltok.StartTag {
			continue
		}
		for _, a := range tk.Attrs {
			if a.Name != cl.attr {
				continue
			}
			dec := htmltok.DecodeAttrValue(a.Value)
			frame := strings.Replace(cl.tmpl[strings.Index(cl.tmpl, cl.attr+"=")+len(cl.attr)+2:], "", "", 0)
			_ = frame
			if own {
				// the contents must be inside the decoded value, up to percent-encoding and coercion
				want := norm(s)
				pre, suf := staticAround(cl)
				if !strings.HasPrefix(dec, pre) || !strings.HasSuffix(dec, suf) || len(dec) < len(pre)+len(suf) {
					c.Violation(k, "context %q: decoded %s value %+q does not keep the static frame %q...%q (contents %+q)", cl.tmpl, cl.attr, dec, pre, suf, s)
					return
				}
				mid := dec[len(pre) : len(dec)-len(suf)]
				if mid != want && !(cl.url && (looseEq(mid, s) || looseEq(mid, want))) {
					c.Violation(k, "context %q: %s value with contents %+q is emitted as %+q, which decodes to %+q", cl.tmpl, typ, s, a.Value, mid)
					return
				}
				c.Count("own_attribute_values_verified", 1)
			}
			return
		}
	}
	c.Violation(k, "context %q: attribute %s not found in output %+q", cl.tmpl, cl.attr, V.Out)
}

// staticAround returns the decoded static text around the action inside the attribute value.
func staticAround(cl cell) (string, string) {
	i := strings.Index(cl.tmpl, "{{.}}")
	// value starts after the quote that follows attr=
	st := strings.LastIndexAny(cl.tmpl[:i], `"'`)
	q := cl.tmpl[st]
	en := i + 5 + strings.IndexByte(cl.tmpl[i+5:], q)
	return htmltok.DecodeAttrValue(cl.tmpl[st+1 : i]), htmltok.DecodeAttrValue(cl.tmpl[i+5 : en])
}

var corpus = []string{
	"", "x", "plain text", "<b>bold</b>", "<b title=\"x\" onmouseover=\"alert(1)\">", "\"><img src=x onerror=alert(1)>", "'><script>alert(1)</script>", "\" onclick=\"alert(1)", "' onx='y", "</p>", "</textarea><script>alert(1)</script>", "</title>", "</script><script>alert(1)</script>", "</style>", "-->", "--!>", "<!--", "<script>",
	"a&b", "&amp;", "&lt;b&gt;", "&#34;", "&quot; onx=&quot;", "&", "&#", "&lt", "it's", "say \"hi\"", "`", "=", "a=b", " ", "\t", "\n", "\r", "\r\n", "\f", "\x00", "a\x00b", "\x7f", "\u0085", "\xff", "\xc3", "\xed\xa0\x80", "﷐", "￾", "é", "日本",
	"javascript:alert(1)", "JaVaScRiPt:alert(1)", " javascript:alert(1)", "java\tscript:alert(1)", "data:text/html,<script>alert(1)</script>", "http://example.com/", "https://example.com/a b?c=d&e=f#g", "//evil.example/x.js", "/path/to?x=1", "?q=1", "#f", "..", "../x", ".", "%2e%2e", "%", "%zz", "%41", "a%20b", "mailto:a@b", "x y", "a,b", "/a.png 1x, /b.png 2x", "javascript:x 1x",
	"color:red;", "color:red", "a{b:c}", "}", "{", "expression(alert(1))", "url(javascript:alert(1))", "/* */", "*/", "\\", "\\\"", "background:url('x')", "alert(1)", "var x = \"</script>\";", "x--", "]]>", "id1", "my-id", "_blank", "ltr", "auto", "lazy", "async", "LTR",
}

func run(c *core.Ctx) {
	idx := 0
	for _, cl := range cells {
		for _, typ := range types {
			for ptr := 0; ptr <= 2; ptr++ {
				for _, s := range corpus {
					idx++
					if !c.Mine(idx) {
						continue
					}
					check(c, cl, typ, ptr, s)
				}
			}
		}
	}
	c.SetExhaustive("cells x types x pointer depths x corpus")
	c.Sample(kase{Template: util.Q(cells[16].tmpl), Type: "HTML", Ptr: 0, Contents: util.Q(corpus[4])})
	r := c.Rng("soup")
	n := c.N(300000, 4000000) / c.NShards
	for i := 0; i < n; i++ {
		cl := cells[r.Intn(len(cells))]
		typ := types[r.Intn(len(types))]
		var s string
		switch r.Intn(4) {
		case 0:
			s = gen.Mutate(r, corpus[r.Intn(len(corpus))], gen.HTMLAtoms)
		case 1:
			s = gen.Soup(r, gen.URLAtoms, 1+r.Intn(5))
		case 2:
			s = gen.Soup(r, gen.CSSAtoms, 1+r.Intn(5))
		default:
			s = gen.Hostile(r)
		}
		check(c, cl, typ, r.Intn(3), s)
		if i < 2 {
			c.Sample(kase{Template: util.Q(cl.tmpl), Type: typ, Ptr: 0, Contents: util.Q(s)})
		}
	}
}
