// Package c13 monitors the TrustedResourceURL builders (property C13).
package c13

import (
	"encoding/json"
	"regexp"
	"sort"
	"strings"

	"github.com/google/safehtml"

	"verif/core"
	"verif/gen"
	"verif/oracle/refs"
	"verif/util"
)

type kase struct {
	Op     string            `json:"op"` // format | formatconst | append | params
	Format string            `json:"format_or_base_quoted"`
	Args   map[string]string `json:"args_quoted,omitempty"`
	Append string            `json:"append_quoted,omitempty"`
}

func init() {
	core.Register(&core.Monitor{
		ID:    "C13",
		Level: "exploration",
		Rule: "inputs: format strings from a grammar (every safe and unsafe prefix kind, 0-4 markers, markers adjacent to each other and to '.', '/', '?', '#', '%2e', partial escapes), argument maps over a hostile URL corpus ('/', '\\\\', '?', '#', '.', '..', '%2e', '%', controls, non-ASCII), missing arguments; appended strings; bases with/without query/fragment and parameter maps (empty keys/values, reserved characters); " +
			"results decomposed by an independent marker substitution, RFC 3986 split and dot-segment scan; non-trivial = at least one argument/appended string/parameter contains a reserved or dot character; distinct by case",
		Assumptions: []string{"oracle: refs.SafeTRUPrefix, refs.Enc (percent-encode to unreserved), refs.DotDotWithArg, RFC 3986 appendix B regular expression"},
		Run:         run,
		Replay:      replay,
		MinDistinct: func(string) int64 { return 50000 },
	})
}

func replay(c *core.Ctx, raw json.RawMessage) error {
	var k kase
	if err := json.Unmarshal(raw, &k); err != nil {
		return err
	}
	args := map[string]string{}
	for a, v := range k.Args {
		args[util.Unq(a)] = util.Unq(v)
	}
	switch k.Op {
	case "format", "formatconst":
		checkFormat(c, util.Unq(k.Format), args, k.Op == "formatconst")
	case "append":
		checkAppend(c, util.Unq(k.Format), util.Unq(k.Append))
	case "params":
		checkParams(c, util.Unq(k.Format), args)
	}
	return nil
}

func qmap(m map[string]string) map[string]string {
	out := map[string]string{}
	for k, v := range m {
		out[util.Q(k)] = util.Q(v)
	}
	return out
}

func isWord(b byte) bool {
	return '0' <= b && b <= '9' || 'a' <= b && b <= 'z' || 'A' <= b && b <= 'Z' || b == '_'
}

// substitute is the independent reading of the format: %{label} markers, label = 1+ word
// characters, leftmost first.
func substitute(format string, args map[string]string) (res string, spans []refs.Span, missing bool) {
	var b strings.Builder
	for i := 0; i < len(format); {
		if format[i] == '%' && i+2 < len(format) && format[i+1] == '{' {
			j := i + 2
			for j < len(format) && isWord(format[j]) {
				j++
			}
			if j > i+2 && j < len(format) && format[j] == '}' {
				v, ok := args[format[i+2:j]]
				if !ok {
					missing = true
				}
				e := refs.Enc(v)
				spans = append(spans, refs.Span{A: b.Len(), B: b.Len() + len(e)})
				b.WriteString(e)
				i = j + 1
				continue
			}
		}
		b.WriteByte(format[i])
		i++
	}
	return b.String(), spans, missing
}

// lowerHex lower-cases the hex digits of %XX triplets: the property does not fix their case.
func lowerHex(s string) string {
	b := []byte(s)
	for i := 0; i+2 < len(b); i++ {
		if b[i] == '%' && isHexB(b[i+1]) && isHexB(b[i+2]) {
			for j := i + 1; j <= i+2; j++ {
				if 'A' <= b[j] && b[j] <= 'F' {
					b[j] += 32
				}
			}
			i += 2
		}
	}
	return string(b)
}

func isHexB(c byte) bool { return '0' <= c && c <= '9' || 'a' <= c && c <= 'f' || 'A' <= c && c <= 'F' }

func interesting(ss ...string) bool {
	for _, s := range ss {
		if strings.ContainsAny(s, "./\\?#%&=: ") {
			return true
		}
	}
	return false
}

func checkFormat(c *core.Ctx, format string, args map[string]string, viaConst bool) {
	c.Eval(1)
	op := "format"
	if viaConst {
		op = "formatconst"
	}
	k := kase{Op: op, Format: util.Q(format), Args: qmap(args)}
	c.Note(func() interface{} { return k })
	var vals []string
	for _, v := range args {
		vals = append(vals, v)
	}
	if interesting(vals...) {
		c.DistinctS(util.JSON(k))
	}
	var res safehtml.TrustedResourceURL
	var err error
	p := core.Recover(func() {
		if viaConst {
			out := util.CallConst(safehtml.TrustedResourceURLFormatFromConstant, format, args)
			res = out[0].Interface().(safehtml.TrustedResourceURL)
			if e, ok := out[1].Interface().(error); ok {
				err = e
			}
		} else {
			res, err = safehtml.TrustedResourceURLFormatFromFlag(util.FlagValue(format), args)
		}
	})
	if p != nil {
		c.Violation(k, "TrustedResourceURLFormat panicked: %v", p)
		return
	}
	if err != nil {
		c.Count("format_rejected", 1)
		return
	}
	c.Count("format_accepted", 1)
	if !refs.SafeTRUPrefix(format) {
		c.Violation(k, "format %+q has no safe prefix but was accepted: %+q", format, res.String())
		return
	}
	want, spans, missing := substitute(format, args)
	if missing {
		c.Violation(k, "format %+q was accepted although an argument is missing (args %v): %+q", format, args, res.String())
		return
	}
	if lowerHex(res.String()) != lowerHex(want) {
		c.Violation(k, "Format(%+q, %v)=%+q, independent substitution gives %+q", format, args, res.String(), want)
		return
	}
	// scheme and authority are those of the format, whatever the arguments are (also empty
	// ones): compare with the format in which every marker is one unreserved character
	maskedArgs := map[string]string{}
	for a := range args {
		maskedArgs[a] = "x"
	}
	mf, _, _ := substitute(format, maskedArgs)
	ms, mr := rfc3986.FindStringSubmatch(strings.ReplaceAll(mf, "\\", "/")), rfc3986.FindStringSubmatch(strings.ReplaceAll(res.String(), "\\", "/"))
	if !strings.EqualFold(ms[2], mr[2]) || ms[3] != mr[3] || ms[4] != mr[4] {
		c.Violation(k, "Format(%+q, %v)=%+q: scheme/authority %q%q differ from those of the format, %q%q", format, args, res.String(), mr[1], mr[3], ms[1], ms[3])
		return
	}
	// what a URL parser makes of the result: as many path segments as of the format with
	// harmless one-character arguments, i.e. no argument makes the path climb
	if strings.HasPrefix(mf, "/") || strings.Contains(mf, "//") {
		if dm, dr := refs.NormalizedDepth(mf), refs.NormalizedDepth(res.String()); dm != dr {
			c.Violation(k, "Format(%+q, %v)=%+q: a URL parser resolves the path to %d segments, the format with harmless arguments (%+q) to %d", format, args, res.String(), dr, mf, dm)
			return
		}
	}
	if refs.DotDotTouchingArg(res.String(), spans) {
		c.Violation(k, "Format(%+q, %v)=%+q: arguments take part in a '..' path segment", format, args, res.String())
		return
	}
}

func checkAppend(c *core.Ctx, base, s string) {
	c.Eval(1)
	k := kase{Op: "append", Format: util.Q(base), Append: util.Q(s)}
	c.Note(func() interface{} { return k })
	if interesting(s) {
		c.DistinctS(util.JSON(k))
	}
	var res safehtml.TrustedResourceURL
	var err error
	p := core.Recover(func() {
		t := safehtml.TrustedResourceURLFromFlag(util.FlagValue(base))
		res, err = safehtml.TrustedResourceURLAppend(t, s)
	})
	if p != nil {
		c.Violation(k, "TrustedResourceURLAppend panicked: %v", p)
		return
	}
	if err != nil {
		c.Count("append_rejected", 1)
		if res.String() != "" {
			c.Violation(k, "Append error %q but non-zero result %+q", err, res.String())
		}
		return
	}
	c.Count("append_accepted", 1)
	if !refs.SafeTRUPrefix(base) {
		c.Violation(k, "base %+q has no safe prefix but Append succeeded: %+q", base, res.String())
		return
	}
	e := refs.Enc(s)
	if lowerHex(res.String()) != lowerHex(base+e) {
		c.Violation(k, "Append(%+q, %+q)=%+q, want %+q", base, s, res.String(), base+e)
		return
	}
	if masked := base + strings.Repeat("x", len(e)); strings.HasPrefix(base, "/") || strings.Contains(base, "//") {
		if dm, dr := refs.NormalizedDepth(masked), refs.NormalizedDepth(res.String()); dm != dr {
			c.Violation(k, "Append(%+q, %+q)=%+q: a URL parser resolves the path to %d segments, with a harmless string of the same length (%+q) to %d", base, s, res.String(), dr, masked, dm)
			return
		}
	}
	if refs.DotDotWithArg(res.String(), []refs.Span{{A: len(base), B: len(base) + len(e)}}) {
		c.Violation(k, "Append(%+q, %+q)=%+q: the appended string takes part in a '..' path segment", base, s, res.String())
	}
}

var rfc3986 = regexp.MustCompile(`^(([^:/?#]+):)?(//([^/?#]*))?([^?#]*)(\?([^#]*))?(#(.*))?`)

func checkParams(c *core.Ctx, base string, params map[string]string) {
	c.Eval(1)
	k := kase{Op: "params", Format: util.Q(base), Args: qmap(params)}
	c.Note(func() interface{} { return k })
	var all []string
	for a, v := range params {
		all = append(all, a, v)
	}
	if interesting(all...) {
		c.DistinctS(util.JSON(k))
	}
	call := func() (string, interface{}) {
		var out string
		p := core.Recover(func() {
			m := map[string]string{}
			// re-built map: different insertion order / iteration seed each time
			keys := make([]string, 0, len(params))
			for a := range params {
				keys = append(keys, a)
			}
			for _, a := range keys {
				m[a] = params[a]
			}
			out = safehtml.TrustedResourceURLWithParams(safehtml.TrustedResourceURLFromFlag(util.FlagValue(base)), m).String()
		})
		return out, p
	}
	res, p := call()
	if p != nil {
		c.Violation(k, "TrustedResourceURLWithParams panicked: %v", p)
		return
	}
	for i := 0; i < 7; i++ {
		if r2, _ := call(); r2 != res {
			c.Violation(k, "WithParams(%+q, %v) is not deterministic: %+q vs %+q", base, params, res, r2)
			return
		}
	}
	var want []string
	for a, v := range params {
		if a == "" || v == "" {
			continue
		}
		want = append(want, refs.Enc(a)+"="+refs.Enc(v))
	}
	sort.Strings(want)
	url, frag := base, ""
	if i := strings.IndexByte(base, '#'); i >= 0 {
		url, frag = base[:i], base[i:]
	}
	if len(want) == 0 {
		if res != base {
			c.Violation(k, "WithParams(%+q, %v)=%+q changed the URL although no non-empty parameter was given", base, params, res)
		}
		return
	}
	if !strings.HasPrefix(res, url) || !strings.HasSuffix(res, frag) || len(res) < len(url)+len(frag) {
		c.Violation(k, "WithParams(%+q, %v)=%+q does not preserve everything before the fragment and the fragment", base, params, res)
		return
	}
	added := res[len(url) : len(res)-len(frag)]
	sep := "?"
	if i := strings.IndexByte(url, '?'); i >= 0 {
		sep = "&"
		if i == len(url)-1 {
			sep = ""
		}
	}
	if !strings.HasPrefix(added, sep) {
		c.Violation(k, "WithParams(%+q, %v)=%+q: added part %+q does not start with %+q", base, params, res, added, sep)
		return
	}
	got := strings.Split(lowerHex(added[len(sep):]), "&")
	sort.Strings(got)
	if strings.Join(got, "\x00") != strings.Join(want, "\x00") {
		c.Violation(k, "WithParams(%+q, %v)=%+q: added pairs %q, want (in any order) %q", base, params, res, got, want)
		return
	}
	// RFC 3986 view: only the query changed, the old query is a prefix of the new one
	mb, mr := rfc3986.FindStringSubmatch(base), rfc3986.FindStringSubmatch(res)
	if mb[2] != mr[2] || mb[4] != mr[4] || mb[5] != mr[5] || mb[8] != mr[8] || !strings.HasPrefix(mr[7], mb[7]) {
		c.Violation(k, "WithParams(%+q, %v)=%+q changes a component other than the query (RFC 3986 split %q vs %q)", base, params, res, mb[1:], mr[1:])
	}
}

var prefixes = []string{
	"https://example.com/", "HTTPS://Example.COM/", "https://a.b:8080/", "https://[::1]/", "//example.com/", "//h/", "/", "/a", "/a/b/", "/path/to/", "about:blank#", "ABOUT:BLANK#",
	"http\u017f://o/", "about:blan\u212a#", "HTTP\u017f://evil\u212a.example/", "/\t/evil.example/", "/\n\\evil.example/", "https://cdn.example/app/js\\", "https://cdn.example/app/js/.\t", "/static/v1\\.",
	"http://example.com/", "https:/example.com/", "https://", "https:///x", "https://exa mple.com/", "https://user@host/", "https://h\\/", "//", "///x", "/\\evil", "//\\h/", "", "x", "a/b", "./a", "../a", "about:blank", "javascript:alert(1)//", "data:text/html,", "ftp://h/", " https://h/", "\thttps://h/", "https://h", "\\\\h\\", "about:blank?",
}

var pieces = []string{
	"%{x}", "%{y}", "%{x}%{y}", "%{x}%{x}", ".%{x}", "%{x}.", "/%{x}", "%{x}/", "/%{x}/", "?%{x}", "?a=%{x}", "&b=%{y}", "#%{x}", "%2e%{x}", "%{x}%2E", "%2%{x}", "%%{x}", "%{}", "%{x", "%{x y}", "%{é}", "%{x_1}", "%{X}", "%{0}", "%{%{x}}",
	"\\", "\\.", ".\t", "\t.", "\n", "\r.", " ", "/../", "/./", "/../../x", "\\..\\", "%{x}/../m.js", "%%{x}/../m.js", "%{x}\t/evil.example/x.js", "%{x}\n\\evil/x",
	"a", "b/", "c.js", "..", "../", "./", ".", "%2e", "%2e%2e/", "//", "/", "?", "#", "?q=1", "#frag", "%", "%25", "{", "}", "é", " ", "lib/v", "@", ":", "\\", "..%2f",
}

var argVals = []string{
	"", "a", "abc", "1.2.3", ".", "..", "...", "../", "/..", "../..", "%2e", "%2E%2e", ".%2e", "%2e.", "%252e", "/", "//", "\\", "..\\", "a/b", "a/../b", "?", "#", "?x=1", "#f", "&", "=", "a=b&c=d", "%", "%2f", "%00", "%", "%zz",
	" ", "\t", "\n", "\x00", "\x7f", "é", "日本", "\xff", "😀", "~", "-", "_", "a.b-c_d~e", "javascript:", "https://evil/", "//evil", "@evil", ":", ";", ",", "+", "*", "'", "\"", "<", ">", "{", "}", "%{y}", "%{x}",
}

func genFormat(r *core.Rng) string {
	s := prefixes[r.Intn(len(prefixes))]
	if r.Intn(3) > 0 {
		s = prefixes[r.Intn(12)] // mostly safe prefixes
	}
	for n := r.Intn(6); n > 0; n-- {
		s += pieces[r.Intn(len(pieces))]
	}
	return s
}

func genArgs(r *core.Rng) map[string]string {
	m := map[string]string{}
	for _, name := range []string{"x", "y", "x_1", "X", "0"} {
		if r.Intn(6) == 0 {
			continue // missing
		}
		if r.Intn(4) == 0 {
			m[name] = gen.Soup(r, argVals, 1+r.Intn(3))
		} else {
			m[name] = argVals[r.Intn(len(argVals))]
		}
	}
	return m
}

func run(c *core.Ctx) {
	// systematic: every safe prefix x every piece pair x dot-ish argument pairs
	dots := []string{"", ".", "..", "%2e", "a", "/", "x.y"}
	idx := 0
	for _, pre := range prefixes {
		for _, p1 := range pieces {
			for _, p2 := range pieces[:30] {
				idx++
				if !c.Mine(idx) {
					continue
				}
				f := pre + p1 + p2
				for _, x := range dots {
					for _, y := range dots {
						checkFormat(c, f, map[string]string{"x": x, "y": y}, idx%5 == 0)
					}
				}
			}
		}
	}
	c.SetExhaustive("prefixes x pieces x first 30 pieces x 7x7 dot-ish argument pairs")
	for _, pre := range prefixes {
		for _, p1 := range pieces {
			for _, a := range argVals {
				idx++
				if !c.Mine(idx) {
					continue
				}
				checkAppend(c, pre+p1, a)
				checkAppend(c, pre, a)
			}
		}
	}
	for bi, n := range gen.BoundaryLens() {
		if !c.Mine(bi) {
			continue
		}
		for _, sp := range []string{"..", "/..", ".", "%2e%2e", "?x", "#f", "%", "a%2fb", "100%25"} {
			checkFormat(c, "/a/"+gen.Pad("b", n)+"/%{x}/z", map[string]string{"x": sp}, false)
			checkFormat(c, "https://example.com/%{x}.%{y}", map[string]string{"x": gen.Pad("a", n) + sp, "y": sp}, false)
			checkAppend(c, "/a/"+gen.Pad("b/", n), sp)
			checkParams(c, "https://example.com/app.js#/route?tab="+gen.Pad("1", n%9), map[string]string{"k": sp, gen.Pad("q", 1+n%4): "v"})
			checkParams(c, "/static/"+gen.Pad("s", n%6)+"#?", map[string]string{"k": "v"})
		}
	}
	for _, f := range []string{"https:/%{x}/lib.js", "https:/example.com/%{x}", "HTTPS:/%{x}", "https:///%{x}", "https:\\\\%{x}/", "http:/%{x}", "//%{x}/a", "///%{x}", "/%{x}", "about:blank%{x}", "about:blank#%{x}", "https://%{x}/", "https://a%{x}/b"} {
		for _, a := range []string{"evil.example", "a", "/", "..", "evil.example/x"} {
			checkFormat(c, f, map[string]string{"x": a}, false)
			checkAppend(c, strings.ReplaceAll(f, "%{x}", ""), a)
		}
	}
	r := c.Rng("gen")
	n := c.N(600000, 10000000) / c.NShards
	for i := 0; i < n; i++ {
		switch r.Intn(4) {
		case 0, 1:
			f, a := genFormat(r), genArgs(r)
			checkFormat(c, f, a, r.Intn(4) == 0)
			if i < 4 {
				c.Sample(kase{Op: "format", Format: util.Q(f), Args: qmap(a)})
			}
		case 2:
			base := genFormat(r)
			s := argVals[r.Intn(len(argVals))]
			if r.Intn(3) == 0 {
				s = gen.Soup(r, argVals, 1+r.Intn(3))
			}
			checkAppend(c, base, s)
		case 3:
			base := prefixes[r.Intn(len(prefixes))] + gen.Soup(r, []string{"a", "/", "b.js", "?", "?q=1", "&r=2", "#", "#f", "?x", "%", "é", "=", "&", "?#", "#?"}, r.Intn(5))
			m := map[string]string{}
			for j := r.Intn(4); j > 0; j-- {
				m[argVals[r.Intn(len(argVals))]] = argVals[r.Intn(len(argVals))]
			}
			checkParams(c, base, m)
		}
	}
}
