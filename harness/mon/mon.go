// Package mon links every monitor into the vcheck binary.
package mon

import (
	_ "verif/mon/c10"
)
