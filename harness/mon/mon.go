// Package mon links every monitor into the vcheck binary.
package mon

import (
	_ "verif/mon/c01"
	_ "verif/mon/c02"
	_ "verif/mon/c03"
	_ "verif/mon/c04"
	_ "verif/mon/c09"
	_ "verif/mon/c10"
	_ "verif/mon/c11"
	_ "verif/mon/c12"
	_ "verif/mon/c13"
	_ "verif/mon/c14"
	_ "verif/mon/c15"
	_ "verif/mon/c16"
	_ "verif/mon/c17"
	_ "verif/mon/c18"
	_ "verif/mon/c19"
	_ "verif/mon/c20"
	_ "verif/mon/chist"
)
