package c14

import (
	"fmt"
	"regexp"
	"strings"

	"verif/core"
	"verif/oracle/htmltok"
	"verif/oracle/refs"
	"verif/tx"
	"verif/util"
)

// A "multi" case is an attribute value made of several static pieces and several data, the
// pieces possibly contributed by called templates (with static text of their own), by the
// body of a range, or by a recursive template. The author's reading of the value is obtained
// by rendering the value template with text/template and marker strings as data: it yields
// the sequence  s0 d s1 d s2 ...  of static pieces and data actually produced. The decoded
// attribute value of the engine's output must be  s0 f(d) s1 f(d) ...  and every f(d) is judged
// by the case of the property that the text before it selects (the same three cases as for a
// single datum). Static pieces between data carry the sentinel "Zq", which no encoding of a
// datum can produce, so the alignment is unambiguous.
type multi struct {
	Defs   string   `json:"defs_quoted,omitempty"`
	Values []string `json:"values_quoted"` // one value template per judged attribute
	Tgts   []int    `json:"targets"`       // target index per value
	X      string   `json:"X_quoted"`
	Y      string   `json:"Y_quoted"`
	R      []string `json:"R_quoted,omitempty"`
	NX     string   `json:"NX_quoted,omitempty"` // .N.X for recursive shapes
	C      bool     `json:"C,omitempty"`         // .C for conditional prefixes
}

var markerRe = regexp.MustCompile("\x02([A-Z0-9]+)\x02")
var bareAmpBeforeCall = regexp.MustCompile(`&\{\{template`)
var completeAuthority = regexp.MustCompile(`^([^:/?#]+:)?//[^/?#]*[/?#]`)

func (m multi) data(markers bool) map[string]interface{} {
	val := func(id, q string) string {
		if markers {
			return "\x02" + id + "\x02"
		}
		return util.Unq(q)
	}
	d := map[string]interface{}{"X": val("X", m.X), "Y": val("Y", m.Y), "C": m.C}
	var r []string
	for i, e := range m.R {
		r = append(r, val(fmt.Sprintf("R%d", i), e))
	}
	d["R"] = r
	d["N"] = map[string]interface{}{"X": val("NX", m.NX), "Y": val("Y", m.Y), "N": nil, "R": []string{}}
	return d
}

func (m multi) datum(id string) string {
	switch {
	case id == "X":
		return util.Unq(m.X)
	case id == "Y":
		return util.Unq(m.Y)
	case id == "NX":
		return util.Unq(m.NX)
	case strings.HasPrefix(id, "R"):
		var i int
		fmt.Sscanf(id[1:], "%d", &i)
		if i < len(m.R) {
			return util.Unq(m.R[i])
		}
	}
	return ""
}

func (m multi) text() string {
	var b strings.Builder
	b.WriteString(util.Unq(m.Defs))
	b.WriteString("<p>")
	for i, v := range m.Values {
		t := targets[m.Tgts[i]]
		b.WriteString(t.open + t.attr + `="` + util.Unq(v) + `"` + t.close)
	}
	b.WriteString("</p>")
	return b.String()
}

func checkMulti(c *core.Ctx, m multi) {
	c.Eval(1)
	k := kase{Multi: &m}
	text := m.text()
	r := tx.Run(text, m.data(false))
	if r.Panic != nil || r.ParseErr != nil {
		c.Count("multi_skipped", 1)
		return
	}
	if r.ExecErr != nil {
		c.Hist("multi_result", tx.ErrClass(r.ExecErr))
		return
	}
	c.Hist("multi_result", "ok")
	// the engine's output: decoded values of the judged attributes, in order
	res := htmltok.Tokenize(r.Out, htmltok.Options{})
	var vals []string
	ti := 0
	for i := range res.Tokens {
		tk := &res.Tokens[i]
		if tk.Type != htmltok.StartTag || tk.Name == "p" || ti >= len(m.Tgts) {
			continue
		}
		t := targets[m.Tgts[ti]]
		for _, a := range tk.Attrs {
			if a.Name == t.attr {
				vals = append(vals, htmltok.DecodeAttrValue(a.Value))
			}
		}
		ti++
	}
	if len(vals) != len(m.Values) {
		c.Violation(k, "%d judged attributes expected in the output %+q of %s, %d found", len(m.Values), r.Out, text, len(vals))
		return
	}
	for vi, v := range m.Values {
		vi, v := vi, v
		if stop := func() bool {
			t := targets[m.Tgts[vi]]
			skel, err := tx.RunText(util.Unq(m.Defs)+util.Unq(v), m.data(true))
			if err != nil {
				c.Count("multi_skeleton_failed", 1)
				return true
			}
			// split the skeleton into static pieces and data ids
			var statics, ids []string
			pos := 0
			for _, loc := range markerRe.FindAllStringSubmatchIndex(skel, -1) {
				statics = append(statics, skel[pos:loc[0]])
				ids = append(ids, skel[loc[2]:loc[3]])
				pos = loc[1]
			}
			statics = append(statics, skel[pos:])
			if len(ids) == 0 {
				return false
			}
			c.DistinctS("multi", text, m.X, m.Y, strings.Join(m.R, ","), m.NX)
			// static pieces that must be refused whatever follows
			for j, s := range statics {
				sd := htmltok.DecodeAttrValue(s)
				// (the text after the last datum is no prefix of anything: the property does not
				// speak about it, and trailing white space is stripped from URLs anyway)
				if j < len(ids) && (hasCtl(s) || hasCtl(sd)) {
					c.Violation(k, "static text %+q of the %s value contains whitespace or control characters, but %s was accepted: %+q", s, t.attr, text, r.Out)
					return true
				}
				if j < len(ids) && (partialRef.MatchString(s) || partialPct.MatchString(sd)) {
					if !c.Strict && bareAmpBeforeCall.MatchString(text) {
						// known finding K05r: a bare "&" directly before a template call is not
						// treated as the start of a character reference (TestEscapeSet pins it)
						c.Count("multi_excluded_K05r_bare_ampersand_before_call", 1)
						return false
					}
					c.Violation(k, "static text %+q directly before a datum ends in a partial character reference or percent escape, but %s was accepted: %+q", s, text, r.Out)
					return true
				}
			}
			// the static text before each datum, taken together, is a static prefix in the
			// sense of the last sentence of the property
			if statics[0] != "" {
				raw := ""
				for j := range ids {
					raw += statics[j]
					if rej, why := mustReject(t, raw); rej {
						if !c.Strict && bareAmpBeforeCall.MatchString(text) {
							c.Count("multi_excluded_K05r_bare_ampersand_before_call", 1)
							return false
						}
						c.Violation(k, "the static text %+q before datum %d of the %s value %s, but %s was accepted: %+q", raw, j, t.attr, why, text, r.Out)
						return true
					}
				}
			}
			// align
			V := vals[vi]
			s0 := htmltok.DecodeAttrValue(statics[0])
			if s0 == "" {
				// the value starts with a datum: it is sanitized as a whole URL (C02's subject)
				c.Count("multi_value_starts_with_datum", 1)
				return false
			}
			staticBefore := s0 // the component the author put the next datum in is decided by the static text alone
			if !strings.HasPrefix(V, s0) {
				c.Violation(k, "decoded %s value %+q does not start with the static text %+q (%s)", t.attr, V, s0, text)
				return true
			}
			at := len(s0)
			for j, id := range ids {
				next := htmltok.DecodeAttrValue(statics[j+1])
				var f string
				switch {
				case j == len(ids)-1 && next == "":
					f = V[at:]
				case next == "":
					c.Count("multi_adjacent_data_not_aligned", 1)
					return false
				default:
					if !strings.Contains(next, "Zq") {
						c.Count("multi_static_without_sentinel", 1)
						return false
					}
					e := strings.Index(V[at:], next)
					if e < 0 {
						c.Violation(k, "static text %+q is missing after datum %d in the decoded %s value %+q (%s)", next, j, t.attr, V, text)
						return true
					}
					f = V[at : at+e]
				}
				{
					datum := m.datum(id)
					before := V[:at]
					switch {
					case t.tru || strings.ContainsAny(staticBefore, "?#"):
						c.Count("multi_case_encoded", 1)
						if !unreservedOrPct(f) || pctDecode(f) != datum {
							c.Violation(k, "after %+q (query/fragment or TrustedResourceURL prefix) the datum %+q was emitted as %+q, which is not its full percent-encoding; template %s, output %+q", before, datum, f, text, r.Out)
							return true
						}
						if t.tru && refs.DotDotSplitByArg(V[:at]+f+next, []refs.Span{{A: at, B: at + len(f)}}) {
							c.Violation(k, "the datum %+q completes a '..' segment after %+q: %+q", datum, before, V)
							return true
						}
					default:
						c.Count("multi_case_elsewhere", 1)
						for i := 0; i < len(f); i++ {
							b := f[i]
							if b <= 0x20 || b >= 0x7f || b == '"' || b == '\'' || b == '<' || b == '>' || b == '\\' || b == '`' {
								c.Violation(k, "after %+q the datum %+q was emitted as %+q, which contains the byte %q", before, datum, f, b)
								return true
							}
						}
						if pctDecode(f) != pctDecode(datum) {
							c.Violation(k, "after %+q the datum %+q was emitted as %+q, which is not a percent-normalisation of it; template %s", before, datum, f, text)
							return true
						}
					}
					at += len(f) + len(next)
					staticBefore += next
				}
			}
			// scheme and authority are those the static text spells out
			if first := htmltok.DecodeAttrValue(statics[0]); strings.ContainsAny(first, "/?#") {
				ms, mv := rfc3986.FindStringSubmatch(first), rfc3986.FindStringSubmatch(V)
				if !strings.EqualFold(ms[2], mv[2]) || completeAuthority.MatchString(first) && ms[4] != mv[4] {
					c.Violation(k, "scheme/authority of the decoded value %+q differ from those of its static start %+q (%s)", V, first, text)
					return true
				}
			}
			return false
		}(); stop {
			return
		}
	}
}

var multiPrefixes = []string{"/p&#x;", "/p&#X;q", "/a&", "/a/.", "/a/%2e", "https://example.com/a/.", "/p/", "/p?q=", "/p#f", "https://example.com/a/", "/x", "//example.com/b/", "/a?x=1&amp;y=", "mailto:", "/p/Zq", "ja", "javascript:alert(", "/b c/", "/p?q=%", "/a/%2e%", "/p?a&", "/q&#", "/p?a=&lt", "/t&Tab;/", "https://example.com", "/p?q=%2", ""}
var multiInner = []string{"./Zq", ".Zq", "%2e/Zq", "quest;Zq=", "num;Zq", "/Zq/", "?yZq=1", "&amp;Zq=", "#Zq", "Zq", "/Zq?k=", "-Zq.", "/Zq/..", "", "?Zq=1&amp;z=",
	// static text between two actions that ends in something a later datum could complete
	"Zq&#", "Zq&#x", "Zq%2", "Zq%", "Zq ", "Zq&amp", ".%2", "Zq&lt", "/Zq&#00000000"}

var multiData = []string{"", "", "v", "b&c=d#e", "a b", "..", "%2e", "x/y", "?q", "javascript:alert(1)", "\"'<>", "é", "%zz", "a=b", ".", "", "35", "e", "47;"}

func genMulti(r *core.Rng, i int) multi {
	pick := func(l []string) string { return l[r.Intn(len(l))] }
	ti := r.Intn(len(targets))
	m := multi{X: util.Q(pick(multiData)), Y: util.Q(pick(multiData)), NX: util.Q(pick(multiData))}
	for n := 1 + r.Intn(3); n > 0; n-- {
		m.R = append(m.R, util.Q(pick(multiData)))
	}
	p, a, b := pick(multiPrefixes), pick(multiInner), pick(multiInner)
	h1, h2 := pick(multiInner), pick(multiInner)
	m.C = r.Intn(2) == 0
	switch i % 9 {
	case 8: // a helper called at a URL start and after a prefix that only one branch emits
		m.Defs = util.Q(`{{define "h"}}` + h1 + `{{.}}` + h2 + `{{end}}`)
		cond := r.Pick([]string{"{{if .C}}{{else}}" + p + "{{end}}", "{{if .C}}" + p + "{{end}}", "{{with .C}}{{else}}" + p + "{{end}}", "{{if .C}}" + p + "{{else}}" + pick(multiPrefixes) + "{{end}}"})
		m.Values = []string{util.Q(`{{template "h" .Y}}`), util.Q(cond + `{{template "h" .X}}` + b)}
		m.Tgts = []int{r.Intn(8), ti}
	case 0: // two data
		m.Values, m.Tgts = []string{util.Q(p + "{{.X}}" + a + "{{.Y}}" + b)}, []int{ti}
	case 1: // range body with static text
		m.Values, m.Tgts = []string{util.Q(p + "{{range .R}}" + a + "{{.}}" + b + "{{end}}" + h1)}, []int{ti}
	case 2: // helper with static text, called twice in one value
		m.Defs = util.Q(`{{define "h"}}` + h1 + `{{.}}` + h2 + `{{end}}`)
		m.Values, m.Tgts = []string{util.Q(p + `{{template "h" .X}}` + a + `{{template "h" .Y}}`)}, []int{ti}
	case 3, 4: // helper with static text, two call sites in two attributes
		m.Defs = util.Q(`{{define "h"}}` + h1 + `{{.}}` + h2 + `{{end}}`)
		p2 := pick(multiPrefixes)
		m.Values = []string{util.Q(p + `{{template "h" .X}}`), util.Q(p2 + `{{template "h" .Y}}` + b)}
		m.Tgts = []int{r.Intn(len(targets)), ti}
	case 5: // recursive helper
		m.Defs = util.Q(`{{define "r"}}` + h1 + `{{.X}}{{with .N}}{{template "r" .}}{{end}}` + h2 + `{{end}}`)
		m.Values, m.Tgts = []string{util.Q(p + `{{template "r" .}}` + a)}, []int{ti}
	case 6: // recursion before the datum
		m.Defs = util.Q(`{{define "r"}}{{with .N}}{{template "r" .}}{{end}}` + h1 + `{{.X}}{{end}}`)
		m.Values, m.Tgts = []string{util.Q(p + `{{template "r" .}}` + a)}, []int{ti}
	default: // helper without action between prefix and datum
		m.Defs = util.Q(`{{define "s"}}` + h1 + `{{end}}`)
		m.Values, m.Tgts = []string{util.Q(p + `{{template "s"}}{{.X}}` + a + `{{template "s"}}{{.Y}}`)}, []int{ti}
	}
	return m
}
