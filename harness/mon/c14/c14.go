// Package c14 monitors "data interpolated after a static URL prefix stays inside its URL
// component" (C14).
package c14

import (
	"encoding/json"
	"fmt"
	"regexp"
	"strings"

	"verif/core"
	"verif/gen"
	"verif/oracle/htmltok"
	"verif/oracle/refs"
	"verif/tx"
	"verif/util"
)

type kase struct {
	Target int    `json:"target"`
	Quote  string `json:"quote"`
	Prefix string `json:"prefix_quoted"`
	Datum  string `json:"datum_quoted"`
	Helper string `json:"helper_first_prefix_quoted,omitempty"`
	Cond   bool   `json:"conditional_prefix,omitempty"`
	C      bool   `json:"C,omitempty"`
	D      bool   `json:"D,omitempty"`
	Multi  *multi `json:"multi,omitempty"`
}

type target struct {
	open, attr, close string
	tru               bool // TrustedResourceURL-only context
}

var targets = []target{
	{`<a `, "href", `>x</a>`, false}, {`<img `, "src", `>`, false}, {`<form `, "action", `></form>`, false}, {`<button `, "formaction", `>x</button>`, false},
	{`<area `, "href", `>`, false}, {`<video `, "src", `></video>`, false}, {`<link rel="icon" `, "href", `>`, false}, {`<input `, "formaction", `>`, false},
	{`<script `, "src", `></script>`, true}, {`<link rel="stylesheet" `, "href", `>`, true}, {`<iframe `, "src", `></iframe>`, true}, {`<link `, "href", `>`, true}, {`<div `, "src", `>x</div>`, true}, {`<track `, "src", `>`, true},
}

func init() {
	core.Register(&core.Monitor{
		ID:    "C14",
		Level: "exploration",
		Rule: fmt.Sprintf("templates <E A=Q prefix {{.}} Q> over %d URL-typed (element, attribute) targets x 2 quotings x static prefixes from a grammar (schemes, hosts, paths, queries, fragments, character references, percent escapes, whitespace/control characters raw and as references, partial references/escapes, scheme fragments) x hostile data; ", len(targets)) +
			"the decoded attribute value is split into decoded prefix + f(datum) and f is judged per case of the property (query/fragment: fully percent-encoded; TrustedResourceURL prefix: same alphabet, same scheme/authority, no dot-dot segment with the datum; elsewhere: normalised, idempotent, scheme unchanged); an independent predicate says which prefixes must be rejected. Plus values made of several static pieces and data - helpers with static text of their own called at two sites (one value, two attributes), range bodies, recursive helpers, helpers without actions: the value is aligned with the author's rendering (text/template with marker data) and every datum is judged by the case that the text before it selects. " +
			"non-trivial = accepted (prefix, datum) with a datum containing a reserved, dot, percent, quote, space or non-ASCII byte; distinct by case",
		Assumptions: []string{"oracle: htmltok + DecodeAttrValue, refs.Scheme, refs.SafeTRUPrefix, refs.DotDotWithArg, RFC 3986 split; the three cases exactly as the property states them (ASCII controls only)"},
		Run:         run,
		Replay:      replay,
		MinDistinct: func(string) int64 { return 10000 },
	})
}

func replay(c *core.Ctx, raw json.RawMessage) error {
	var k kase
	if err := json.Unmarshal(raw, &k); err != nil {
		return err
	}
	if k.Multi != nil {
		checkMulti(c, *k.Multi)
		return nil
	}
	if k.Helper != "" {
		checkHelper(c, k.Target, util.Unq(k.Helper), util.Unq(k.Prefix), util.Unq(k.Datum))
		return nil
	}
	if k.Cond {
		checkCond(c, k.Target, util.Unq(k.Prefix), k.C, k.D, util.Unq(k.Datum))
		return nil
	}
	check(c, k.Target, k.Quote, util.Unq(k.Prefix), util.Unq(k.Datum))
	return nil
}

var fullScheme = regexp.MustCompile(`^[A-Za-z][A-Za-z0-9+.-]*:`)
var partialRef = regexp.MustCompile(`&(?:[A-Za-z][A-Za-z0-9]*|#(?:[xX][0-9A-Fa-f]*|[0-9]*))?$`)
var partialPct = regexp.MustCompile(`%[0-9A-Fa-f]?$`)

func hasCtl(s string) bool {
	for i := 0; i < len(s); i++ {
		if s[i] <= 0x20 || s[i] == 0x7f {
			return true
		}
	}
	return false
}

// mustReject is the independent reading of the last sentence of the property.
func mustReject(t target, prefix string) (bool, string) {
	dec := htmltok.DecodeAttrValue(prefix)
	switch {
	case hasCtl(prefix) || hasCtl(dec):
		return true, "contains whitespace or control characters (raw or as character references)"
	case partialRef.MatchString(prefix):
		return true, "ends in a partial character reference"
	case partialPct.MatchString(dec):
		return true, "ends in a partial percent escape"
	case t.tru:
		if !refs.SafeTRUPrefix(dec) {
			return true, "is not a TrustedResourceURL prefix in a TrustedResourceURL-only context"
		}
		return false, ""
	case fullScheme.MatchString(dec):
		if refs.Scheme(dec) == "javascript" {
			return true, "has the complete scheme javascript"
		}
		return false, ""
	case !strings.ContainsAny(dec, "/?#"):
		return true, "could still be completed into a scheme"
	}
	return false, ""
}

func unreservedOrPct(f string) bool {
	for i := 0; i < len(f); i++ {
		b := f[i]
		switch {
		case 'a' <= b && b <= 'z', 'A' <= b && b <= 'Z', '0' <= b && b <= '9', b == '-', b == '.', b == '_', b == '~':
		case b == '%' && i+2 < len(f) && isHex(f[i+1]) && isHex(f[i+2]):
			i += 2
		default:
			return false
		}
	}
	return true
}

func isHex(b byte) bool { return '0' <= b && b <= '9' || 'a' <= b && b <= 'f' || 'A' <= b && b <= 'F' }

func pctDecode(f string) string {
	var b strings.Builder
	for i := 0; i < len(f); i++ {
		if f[i] == '%' && i+2 < len(f) && isHex(f[i+1]) && isHex(f[i+2]) {
			var v byte
			fmt.Sscanf(f[i+1:i+3], "%02x", &v)
			b.WriteByte(v)
			i += 2
			continue
		}
		b.WriteByte(f[i])
	}
	return b.String()
}

var rfc3986 = regexp.MustCompile(`^(([^:/?#]+):)?(//([^/?#]*))?([^?#]*)(\?([^#]*))?(#(.*))?`)

func tmplOf(t target, q, prefix string) string {
	return `<p>` + t.open + t.attr + `=` + q + prefix + `{{.}}` + q + t.close + `</p>`
}

// render executes and returns the decoded attribute value.
func render(t target, q, prefix, datum string) (dec string, r tx.Result, found bool) {
	r = tx.Run(tmplOf(t, q, prefix), datum)
	if !r.OK() {
		return "", r, false
	}
	res := htmltok.Tokenize(r.Out, htmltok.Options{})
	n := 0
	for i := range res.Tokens {
		tk := &res.Tokens[i]
		if tk.Type != htmltok.StartTag {
			continue
		}
		n++
		if n != 2 {
			continue
		}
		for _, a := range tk.Attrs {
			if a.Name == t.attr {
				return htmltok.DecodeAttrValue(a.Value), r, true
			}
		}
	}
	return "", r, false
}

func check(c *core.Ctx, ti int, q, prefix, datum string) {
	c.Eval(1)
	t := targets[ti]
	k := kase{Target: ti, Quote: q, Prefix: util.Q(prefix), Datum: util.Q(datum)}
	if strings.Contains(prefix, q) || prefix == "" {
		return
	}
	dec, r, found := render(t, q, prefix, datum)
	if r.Panic != nil || r.ParseErr != nil {
		c.Count("skipped", 1)
		return
	}
	rej, why := mustReject(t, prefix)
	analysisErr := r.ExecErr != nil && !strings.Contains(r.ExecErr.Error(), "error calling")
	if r.ExecErr != nil {
		c.Hist("result", tx.ErrClass(r.ExecErr))
	} else {
		c.Hist("result", "ok")
	}
	if rej {
		c.Count("must_reject_prefixes", 1)
		if r.ExecErr == nil {
			c.Violation(k, "prefix %+q %s but %s was accepted: %+q", prefix, why, tmplOf(t, q, prefix), r.Out)
		}
		return
	}
	if r.ExecErr != nil {
		_ = analysisErr
		return
	}
	if strings.ContainsAny(datum, "./\\?#%&=:;\"'<> ") || !isASCII(datum) {
		c.DistinctS(fmt.Sprint(ti), q, prefix, datum)
	}
	if !found {
		c.Violation(k, "attribute %s not found in the output %+q of %s", t.attr, r.Out, tmplOf(t, q, prefix))
		return
	}
	pdec := htmltok.DecodeAttrValue(prefix)
	if !strings.HasPrefix(dec, pdec) {
		c.Violation(k, "decoded value %+q does not start with the decoded static prefix %+q", dec, pdec)
		return
	}
	f := dec[len(pdec):]
	switch {
	case t.tru:
		c.Count("case_tru_prefix", 1)
		if !unreservedOrPct(f) || pctDecode(f) != datum {
			c.Violation(k, "after the TrustedResourceURL prefix %+q the datum %+q was emitted as %+q, which is not its full percent-encoding", prefix, datum, f)
			return
		}
		mp, mv := rfc3986.FindStringSubmatch(pdec+"x"), rfc3986.FindStringSubmatch(dec+"x")
		if !strings.EqualFold(mp[2], mv[2]) || mp[4] != mv[4] {
			c.Violation(k, "scheme/authority changed: prefix %+q -> value %+q", pdec, dec)
			return
		}
		if refs.DotDotWithArg(dec, []refs.Span{{A: len(pdec), B: len(dec)}}) {
			c.Violation(k, "after the TrustedResourceURL prefix %+q the datum %+q completes a '..' segment: %+q", prefix, datum, dec)
			return
		}
	case strings.ContainsAny(pdec, "?#"):
		c.Count("case_query_fragment", 1)
		if !unreservedOrPct(f) || pctDecode(f) != datum {
			c.Violation(k, "in the query/fragment after %+q the datum %+q was emitted as %+q, which is not its full percent-encoding", prefix, datum, f)
			return
		}
	default:
		c.Count("case_elsewhere", 1)
		for i := 0; i < len(f); i++ {
			b := f[i]
			if b <= 0x20 || b >= 0x7f || b == '"' || b == '\'' || b == '<' || b == '>' || b == '\\' || b == '`' {
				c.Violation(k, "after %+q the datum %+q was emitted as %+q, which contains the byte %q", prefix, datum, f, b)
				return
			}
		}
		if pctDecode(f) != pctDecode(datum) {
			c.Violation(k, "after %+q the datum %+q was emitted as %+q, which is not a percent-normalisation of it", prefix, datum, f)
			return
		}
		// valid %XX of the datum are kept
		for i := 0; i+2 < len(datum); i++ {
			if datum[i] == '%' && isHex(datum[i+1]) && isHex(datum[i+2]) && !strings.Contains(f, datum[i:i+3]) {
				c.Violation(k, "valid escape %s of the datum %+q is not kept in %+q", datum[i:i+3], datum, f)
				return
			}
		}
		// idempotent
		dec2, r2, found2 := render(t, q, prefix, f)
		if r2.OK() && found2 && dec2 != dec {
			c.Violation(k, "normalisation is not idempotent after %+q: %+q -> %+q -> %+q", prefix, datum, f, strings.TrimPrefix(dec2, pdec))
			return
		}
		if refs.Scheme(dec) != refs.Scheme(pdec+"/") && refs.Scheme(dec) != refs.Scheme(pdec) {
			c.Violation(k, "scheme of the value %+q is %q, the prefix %+q has %q", dec, refs.Scheme(dec), pdec, refs.Scheme(pdec))
			return
		}
	}
}

func isASCII(s string) bool {
	for i := 0; i < len(s); i++ {
		if s[i] >= 0x80 {
			return false
		}
	}
	return true
}

var pfxSchemes = []string{"", "", "", "https:", "http:", "HTTPS:", "mailto:", "ftp:", "javascript:", "JavaScript:", "data:", "x-custom+a.b:", "about:", "&#104;ttps:", "java", "j", "https", "&#106;avascript:", "javascript&colon;", "java&Tab;script:", "vbscript:", ":"}
var pfxHosts = []string{"", "", "//example.com", "//example.com:8080", "//[::1]", "//user@example.com", "//EXAMPLE.com", "//exa mple.com", "//", "//h", "///", "//h\\"}
var pfxPaths = []string{"", "/", "/p", "/p/", "/a/b/c/", "/a/../b/", "/x/.", "/x/..", "/a/%2e", "/a/%2E%2e/", "/a%20b/", "/a b/", "/a\tb/", "/a&#9;b/", "/a&#32;b/", "/a&Tab;b", "/a&NewLine;", "/é/", "/%", "/%4", "/%zz/", "/a&amp;b/", "/a&b/", "/&", "/&#", "/&#x", "/&lt", "/&lt;", "/x&amp", "./", "../", "p/", "p", "\\p\\", "/\\", "/a\x00b/", "/a\x7fb/", "/a&#0;b/", "/a&#x7f;/", "/&#00000000", "/&#x0000000", "/p/&#0000000000", "/static/&#00000000000"}
var pfxQueries = []string{"", "", "?", "?q=", "?a=1&amp;b=", "?a=1&b=", "?a=1;b=", "?q=%", "?q=%2", "?q=%20", "?q=&", "?q=&#", "?q=&amp", "? q=", "?q=\n", "?q=x&amp;r=", "?x=&#00000000", "?x=&#x0000000"}
var pfxFrags = []string{"", "", "", "#", "#f", "#a=", "#%", "#&", "#&amp;x="}

func genPrefix(r *core.Rng) string {
	p := r.Pick(pfxSchemes) + r.Pick(pfxHosts) + r.Pick(pfxPaths) + r.Pick(pfxQueries) + r.Pick(pfxFrags)
	if r.Intn(8) == 0 {
		p = gen.Mutate(r, p, gen.URLAtoms)
	}
	return p
}

var data = []string{
	"", "x", "abc", "a b", "a/b", "/", "//evil.example/", "\\", "..", ".", "../..", "%2e%2e", "%2E", ".%2e", "%2e.", "./", "/..", "?", "#", "&", "=", "a=b&c=d", "&amp;", ";", ":", "javascript:alert(1)", "://evil/", "@evil", "%", "%zz", "%4", "%41", "%00", "%0a", "%20", "%25",
	"\"", "'", "<", ">", "`", "\"><script>", " ", "\t", "\n", "\r", "\x00", "\x7f", "é", "日本", "\xff", "\xc3", "😀", "~", "-", "_", "a.b-c_d~e", "+", "*", "!", "$", "(", ")", ",", "[", "]", "{", "}", "|", "^", "x.js", "lib/v1/x.js", "..%2f", "%2f..", "a%2Fb", "35", "47", "0022", "26", "23;", "e", "2e",
}

// checkCond runs a template whose prefix is chosen by conditionals: either the engine rejects
// it (ambiguous prefix), or the datum must be confined according to the prefix that is
// actually rendered.
func checkCond(c *core.Ctx, ti int, prefixTmpl string, cv, dv bool, datum string) {
	c.Eval(1)
	t := targets[ti]
	text := `<p>` + t.open + t.attr + `="` + prefixTmpl + `{{.X}}"` + t.close + `</p>`
	k := kase{Target: ti, Quote: `"`, Prefix: util.Q(prefixTmpl), Datum: util.Q(datum), C: cv, D: dv, Cond: true}
	data := map[string]interface{}{"C": cv, "D": dv, "X": datum}
	r := tx.Run(text, data)
	if r.Panic != nil || r.ParseErr != nil {
		c.Count("skipped", 1)
		return
	}
	if r.ExecErr != nil {
		c.Hist("conditional_prefix_result", tx.ErrClass(r.ExecErr))
		return
	}
	c.Hist("conditional_prefix_result", "ok")
	eff, err := tx.RunText(prefixTmpl, data)
	if err != nil {
		return
	}
	c.DistinctS("cond", fmt.Sprint(ti), prefixTmpl, fmt.Sprint(cv, dv), datum)
	res := htmltok.Tokenize(r.Out, htmltok.Options{})
	dec, found, n := "", false, 0
	for i := range res.Tokens {
		tk := &res.Tokens[i]
		if tk.Type != htmltok.StartTag {
			continue
		}
		if n++; n != 2 {
			continue
		}
		for _, a := range tk.Attrs {
			if a.Name == t.attr {
				dec, found = htmltok.DecodeAttrValue(a.Value), true
			}
		}
	}
	pdec := htmltok.DecodeAttrValue(eff)
	if !found || !strings.HasPrefix(dec, pdec) {
		c.Violation(k, "conditional prefix %q (C=%v D=%v): decoded value %+q does not start with the rendered prefix %+q", prefixTmpl, cv, dv, dec, pdec)
		return
	}
	f := dec[len(pdec):]
	if eff == "" {
		return // the action is at the URL start on this path: sanitized as a whole URL (C02's business)
	}
	if rej, why := mustReject(t, eff); rej {
		c.Violation(k, "conditional prefix %q renders (C=%v D=%v) as %+q, which %s, but the template was accepted: %+q", prefixTmpl, cv, dv, eff, why, r.Out)
		return
	}
	if t.tru || strings.ContainsAny(pdec, "?#") {
		if !unreservedOrPct(f) || pctDecode(f) != datum {
			c.Violation(k, "conditional prefix %q renders (C=%v D=%v) as %+q; the datum %+q was emitted as %+q, which is not its full percent-encoding: %+q", prefixTmpl, cv, dv, eff, datum, f, r.Out)
		}
	}
}

// checkHelper: one helper template interpolates the datum at two call sites with different
// static prefixes (the first is analysed first); the datum at the second call site must be
// confined according to the second prefix.
func checkHelper(c *core.Ctx, ti int, p1, p2, datum string) {
	c.Eval(1)
	t := targets[ti]
	text := `{{define "val"}}{{.}}{{end}}<p><a href="` + p1 + `{{template "val" .X}}">x</a>` + t.open + t.attr + `="` + p2 + `{{template "val" .X}}"` + t.close + `</p>`
	k := kase{Target: ti, Quote: `"`, Prefix: util.Q(p2), Datum: util.Q(datum), Helper: util.Q(p1)}
	r := tx.Run(text, map[string]interface{}{"X": datum})
	if r.Panic != nil || r.ParseErr != nil || r.ExecErr != nil {
		c.Hist("helper_result", tx.ErrClass(r.ExecErr))
		return
	}
	c.Hist("helper_result", "ok")
	c.DistinctS("helper", fmt.Sprint(ti), p1, p2, datum)
	res := htmltok.Tokenize(r.Out, htmltok.Options{})
	dec, found, n := "", false, 0
	for i := range res.Tokens {
		tk := &res.Tokens[i]
		if tk.Type != htmltok.StartTag {
			continue
		}
		if n++; n != 3 {
			continue
		}
		for _, a := range tk.Attrs {
			if a.Name == t.attr {
				dec, found = htmltok.DecodeAttrValue(a.Value), true
			}
		}
	}
	pdec := htmltok.DecodeAttrValue(p2)
	if !found || !strings.HasPrefix(dec, pdec) {
		c.Violation(k, "helper called after %q and after %q: decoded value %+q of the second call site does not start with its prefix", p1, p2, dec)
		return
	}
	f := dec[len(pdec):]
	if rej, why := mustReject(t, p2); rej && p2 != "" {
		c.Violation(k, "helper called after %q and then after %q, which %s: accepted, output %+q", p1, p2, why, r.Out)
		return
	}
	if p2 != "" && (t.tru || strings.ContainsAny(pdec, "?#")) {
		if !unreservedOrPct(f) || pctDecode(f) != datum {
			c.Violation(k, "helper called after %q and then after %q: the datum %+q was emitted as %+q at the second call site, which is not its full percent-encoding: %+q", p1, p2, datum, f, r.Out)
		}
		return
	}
	if p2 != "" {
		for i := 0; i < len(f); i++ {
			if b := f[i]; b <= 0x20 || b >= 0x7f || b == '"' || b == '\'' || b == '<' || b == '>' || b == '\\' {
				c.Violation(k, "helper called after %q and then after %q: the datum %+q was emitted as %+q at the second call site", p1, p2, datum, f)
				return
			}
		}
	}
}

func run(c *core.Ctx) {
	// values made of several static pieces and data (helpers with static text, range bodies,
	// recursive helpers, two call sites of one helper)
	rm := c.Rng("multi")
	for i := 0; i < c.N(120000, 1500000)/c.NShards; i++ {
		m := genMulti(rm, i)
		c.Journal(util.JSON(kase{Multi: &m}))
		checkMulti(c, m)
	}
	// one helper, two call sites
	hp := []string{"/p/", "/search?q=", "/p#", "https://example.com/", "/a?x=1&amp;y=", "/x/.", "mailto:"}
	hi := 0
	for ti := range targets {
		for _, p1 := range hp {
			for _, p2 := range hp {
				hi++
				if !c.Mine(hi) {
					continue
				}
				for _, d := range []string{"v&admin=1#frag", "a b/../c", "x?y=z", "%41%zz", "\"'<>"} {
					checkHelper(c, ti, p1, p2, d)
				}
			}
		}
	}
	// conditional prefixes
	branches := []string{"/p/", "/p?q=", "/p#", "https://example.com/", "/a/b?x=1&amp;y=", "", "/p/"}
	ci := 0
	for ti := range targets {
		for _, a := range branches {
			for _, b := range branches {
				for _, d3 := range branches[:4] {
					ci++
					if !c.Mine(ci) {
						continue
					}
					shapes := []string{
						"{{if .C}}" + a + "{{else}}" + b + "{{end}}",
						"{{if .C}}" + a + "{{else}}{{if .D}}" + b + "{{else}}" + d3 + "{{end}}{{end}}",
						"{{if .C}}{{if .D}}" + a + "{{else}}" + b + "{{end}}{{else}}" + d3 + "{{end}}",
						"{{if .C}}" + a + "{{else}}" + b + "{{end}}{{if .D}}{{end}}",
						a + "{{if .C}}" + b + "{{end}}",
						"{{with .C}}" + a + "{{else}}" + b + "{{end}}{{if .D}}" + d3 + "{{end}}",
					}
					for _, sh := range shapes {
						for _, cv := range []bool{true, false} {
							for _, dv := range []bool{true, false} {
								checkCond(c, ti, sh, cv, dv, "v&a=1#f /..")
							}
						}
					}
				}
			}
		}
	}
	c.SetExhaustive("conditional prefix shapes x branch prefixes x truth assignments")
	// systematic part: every target x a structured prefix list x every datum
	var sys []string
	for _, s := range []string{"", "https:", "mailto:"} {
		for _, h := range []string{"", "//example.com"} {
			for _, p := range []string{"/", "/p/", "/x/.", "/a/%2e", "/a&amp;b/"} {
				for _, qf := range []string{"", "?q=", "#f", "?a=1&amp;b="} {
					sys = append(sys, s+h+p+qf)
				}
			}
		}
	}
	idx := 0
	for ti := range targets {
		for _, q := range []string{`"`, `'`} {
			for _, p := range sys {
				idx++
				if !c.Mine(idx) {
					continue
				}
				c.Journal(util.JSON(kase{Target: ti, Quote: q, Prefix: util.Q(p)}))
				for _, d := range data {
					check(c, ti, q, p, d)
				}
			}
		}
	}
	c.SetExhaustive("targets x quotes x structured prefixes x datum corpus")
	// rejection part: every scheme/host/path/query/fragment piece alone and paired
	for ti := range targets {
		for _, a := range append(append([]string{}, pfxSchemes...), pfxPaths...) {
			for _, b := range append(append([]string{""}, pfxPaths...), pfxQueries...) {
				idx++
				if !c.Mine(idx) {
					continue
				}
				check(c, ti, `"`, a+b, "x")
				check(c, ti, `'`, a+b, "a b/..")
			}
		}
	}
	r := c.Rng("gen")
	n := c.N(600000, 8000000) / c.NShards
	for i := 0; i < n; i++ {
		ti := r.Intn(len(targets))
		q := `"`
		if r.Bool() {
			q = `'`
		}
		p := genPrefix(r)
		var d string
		switch r.Intn(3) {
		case 0:
			d = gen.Soup(r, data, 1+r.Intn(3))
		case 1:
			d = gen.Mutate(r, r.Pick(data), gen.URLAtoms)
		default:
			d = r.Pick(data)
		}
		check(c, ti, q, p, d)
		if i < 3 {
			c.Sample(kase{Target: ti, Quote: q, Prefix: util.Q(p), Datum: util.Q(d)})
		}
	}
}
