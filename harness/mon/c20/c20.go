// Package c20 monitors TrustedSourceFromConstantDir (property C20).
package c20

import (
	"encoding/json"
	"os"
	"path/filepath"
	"strings"

	"github.com/google/safehtml/template"

	"verif/core"
	"verif/gen"
	"verif/util"
)

type kase struct {
	Dir  string `json:"dir_quoted"`
	Src  string `json:"src_quoted"`
	File string `json:"filename_quoted"`
}

func init() {
	core.Register(&core.Monitor{
		ID:    "C20",
		Level: "exploration",
		Rule: "inputs: every filename of length <=3 (thorough <=4) over a 20-symbol alphabet (dot, separators of the host OS, list separator, backslash, NUL, space, letters, Unicode look-alikes of '/' and '.', newline) x constant dirs {'', '.', '/', 'a/b', '..', 'a/../b', '/abs/x/', 'a//b/'} x src {'', 'sub', 'sub/deeper', '../up', '/abs'} ; plus seeded path soups; plus families of consecutive calls whose (dir, src) are all the splits of one string (state kept between calls would show); " +
			"dir is driven through reflect conversion of the constant-only parameter, src through TrustedSourceFromFlag; non-trivial = filename contains a dot, separator or non-letter; distinct by (dir, src, filename)",
		Assumptions: []string{"oracle: path/filepath Clean/Join/Dir/Base of the host OS applied to the result (decomposition, not re-implementation of the check)"},
		Run:         run,
		Replay:      replay,
		MinDistinct: func(string) int64 { return 50000 },
	})
}

func replay(c *core.Ctx, raw json.RawMessage) error {
	var k kase
	if err := json.Unmarshal(raw, &k); err != nil {
		return err
	}
	check(c, util.Unq(k.Dir), util.Unq(k.Src), util.Unq(k.File))
	return nil
}

func norm(p string) string {
	if p == "" {
		return "."
	}
	return p
}

func check(c *core.Ctx, dir, src, file string) {
	c.Eval(1)
	k := kase{util.Q(dir), util.Q(src), util.Q(file)}
	c.Note(func() interface{} { return k })
	var res template.TrustedSource
	var err error
	p := core.Recover(func() {
		ts := template.TrustedSourceFromFlag(util.FlagValue(src))
		out := util.CallConst(template.TrustedSourceFromConstantDir, dir, ts, file)
		res = out[0].Interface().(template.TrustedSource)
		if e, ok := out[1].Interface().(error); ok {
			err = e
		}
	})
	if p != nil {
		c.Violation(k, "TrustedSourceFromConstantDir(%+q,%+q,%+q) panicked: %v", dir, src, file, p)
		return
	}
	nontriv := false
	for i := 0; i < len(file); i++ {
		b := file[i]
		if !('a' <= b && b <= 'z') {
			nontriv = true
		}
	}
	if nontriv {
		c.DistinctS(dir, src, file)
	}
	if err != nil {
		c.Count("rejected", 1)
		if res.String() != "" {
			c.Violation(k, "error %v but non-zero TrustedSource %+q", err, res.String())
		}
		return
	}
	c.Count("accepted", 1)
	r := res.String()
	base := norm(filepath.Clean(filepath.Join(dir, src)))
	if norm(r) == base {
		return
	}
	bad := ""
	switch {
	case strings.ContainsRune(file, os.PathSeparator):
		bad = "filename contains the path separator"
	case strings.ContainsRune(file, os.PathListSeparator):
		bad = "filename contains the list separator"
	case file == "..":
		bad = "filename is '..'"
	case norm(filepath.Dir(r)) != base:
		bad = "result is not a direct child of " + base
	case filepath.Base(r) != file:
		bad = "last element of the result is not the filename"
	case strings.ContainsRune(r, os.PathListSeparator) && !strings.ContainsRune(filepath.Join(dir, src), os.PathListSeparator):
		bad = "result adds a search-path entry"
	}
	if bad != "" {
		c.Violation(k, "TrustedSourceFromConstantDir(%+q,%+q,%+q)=%+q: %s", dir, src, file, r, bad)
	}
}

func run(c *core.Ctx) {
	dirs := []string{"", ".", "/", "a/b", "..", "a/../b", "/abs/x/", "a//b/"}
	srcs := []string{"", "sub", "sub/deeper", "../up", "/abs"}
	alpha := []string{".", "/", "\\", ":", ";", "\x00", " ", "a", "b", "\n", "∕", "⁄", "／", "․", "．", "。", "~", "*", "%", "-"}
	maxLen := c.N(3, 4)
	cnt := 0
	var rec func(prefix string, depth int)
	rec = func(prefix string, depth int) {
		cnt++
		if c.Mine(cnt) {
			for di, d := range dirs {
				check(c, d, srcs[(cnt+di)%len(srcs)], prefix)
			}
			check(c, dirs[cnt%len(dirs)], srcs[cnt/8%len(srcs)], prefix)
		}
		if depth == maxLen {
			return
		}
		for _, a := range alpha {
			rec(prefix+a, depth+1)
		}
	}
	rec("", 0)
	c.SetExhaustive("all filenames up to the length bound over the 20-symbol alphabet x 8 dirs")
	for bi, n := range gen.BoundaryLens() {
		if !c.Mine(bi) {
			continue
		}
		for _, sp := range []string{"/x", "/..", ":", "", " ", "\n", "..", "\u00a0.."} {
			check(c, "a/b", "", gen.Pad("f", n)+sp)
			check(c, "", "", sp+gen.Pad("f", n))
			check(c, gen.Pad("d", n), "s", ".."+gen.Pad(" ", n%5))
			check(c, "a/b", "", gen.Pad(" ", n%7)+".."+gen.Pad("\t", n%3))
		}
	}
	// consecutive calls whose dir and src are different splits of one string: the result of a
	// call may not depend on earlier calls (e.g. through a cache keyed by the concatenation)
	rs := c.Rng("splits")
	for i := 0; i < c.N(20000, 200000)/c.NShards; i++ {
		t := gen.Soup(rs, []string{"a", "b", "/", "..", ".", "sub", "x", "//", "../"}, 1+rs.Intn(5))
		f := gen.Soup(rs, []string{"f", "x.tmpl", "..", ".", "/", "a"}, 1+rs.Intn(2))
		for cut := 0; cut <= len(t); cut++ {
			check(c, t[:cut], t[cut:], f)
		}
		c.Count("split_families", 1)
	}
	r := c.Rng("soup")
	atoms := append([]string{"..", "../", "/..", "./", "/.", "//", "...", "etc", "passwd", "x.tmpl", "%2e%2e", "%2f", "..\\", "\\..", "C:", "a:b", ":/x", "\xff", "é"}, alpha...)
	for i := 0; i < c.N(300000, 3000000)/c.NShards; i++ {
		f := gen.Soup(r, atoms, r.Intn(6))
		d := dirs[r.Intn(len(dirs))]
		if r.Intn(5) == 0 {
			d = gen.Soup(r, atoms, r.Intn(4))
		}
		s := srcs[r.Intn(len(srcs))]
		if r.Intn(5) == 0 {
			s = gen.Soup(r, atoms, r.Intn(4))
		}
		check(c, d, s, f)
		if i < 3 {
			c.Sample(kase{util.Q(d), util.Q(s), util.Q(f)})
		}
	}
}
