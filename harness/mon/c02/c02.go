// Package c02 monitors "untrusted strings never reach code contexts; URLs never become
// javascript:" (C02).
package c02

import (
	"encoding/json"
	"fmt"
	"regexp"
	"strings"

	"verif/core"
	"verif/gen"
	"verif/oracle/htmltok"
	"verif/oracle/refs"
	"verif/tx"
	"verif/util"
)

type kase struct {
	Text    string       `json:"template_quoted"`
	Hostile gen.DataSpec `json:"hostile"`
	Inert   gen.DataSpec `json:"inert"`
}

func init() {
	core.Register(&core.Monitor{
		ID:    "C02",
		Level: "exploration",
		Rule: "(W1) a systematic family: every code-loading / URL-valued (element, attribute) pair and controls x quoting x static prefix x shape of the dynamic parts (one, two or three adjacent or separated actions, range, if, helper call, static ':' variants after the first action) with dangerous strings split at every position over the parts; " +
			"(W2) grammar-generated templates (URL-heavy, link rel subsets, helpers, control flow) with leaves drawn from marker-first breakers and dangerous URLs. Every successful hostile execution is tokenized by an independent WHATWG tokenizer; each marker is located (script/style body, comment, on*/style/srcdoc attribute, origin position of code-loading URLs = violation) and every href/src/action/formaction/srcset value is decoded and scanned for the javascript scheme. " +
			"non-trivial = accepted template in which a hostile datum was rendered; distinct by (template, assignment)",
		Assumptions: []string{
			"oracle: htmltok tokenizer + attribute-mode character reference decoding, refs.Scheme (WHATWG), refs.Srcset, refs.SafeTRUPrefix; link rel read as a browser does (first rel, decoded, ASCII-whitespace split, ASCII case-insensitive)",
			"static prefix of an attribute value is taken from the inert execution of the same template (same control path)",
		},
		Run:         run,
		Replay:      replay,
		MinDistinct: func(t string) int64 { return 1000 },
	})
}

func replay(c *core.Ctx, raw json.RawMessage) error {
	var k kase
	if err := json.Unmarshal(raw, &k); err != nil {
		return err
	}
	checkOne(c, util.Unq(k.Text), k.Hostile, k.Inert, true)
	return nil
}

var inertLeaf = regexp.MustCompile(`w[0-9]+`)
var markerRe = regexp.MustCompile(`zQ[0-9]+z`)

// k14Shape: a script element whose static body contains "<!--" followed by "<script"
// (HTML5 double-escaped script data; known finding K14).
func k14Shape(text string) bool {
	l := strings.ToLower(text)
	for pos := 0; ; {
		i := strings.Index(l[pos:], "<script")
		if i < 0 {
			return false
		}
		st := pos + i + 7
		end := strings.Index(l[st:], "</script")
		body := l[st:]
		if end >= 0 {
			body = l[st : st+end]
		}
		if j := strings.Index(body, "<!--"); j >= 0 && strings.Contains(body[j:], "<script") {
			return true
		}
		if end < 0 {
			return false
		}
		pos = st + end + 8
	}
}

func asciiLowerTokens(s string) []string {
	f := strings.FieldsFunc(s, func(r rune) bool { return r == ' ' || r == '\t' || r == '\n' || r == '\f' || r == '\r' })
	for i := range f {
		b := []byte(f[i])
		for j := range b {
			if 'A' <= b[j] && b[j] <= 'Z' {
				b[j] += 32
			}
		}
		f[i] = string(b)
	}
	return f
}

func attrOf(t *htmltok.Token, name string) *htmltok.Attr {
	for i := range t.Attrs {
		if t.Attrs[i].Name == name {
			return &t.Attrs[i]
		}
	}
	return nil
}

// loadsCode reports whether (element, attribute) is a URL that loads code or styles.
func loadsCode(t *htmltok.Token, attr string) bool {
	switch t.Name {
	case "script", "iframe", "frame", "embed":
		return attr == "src"
	case "object":
		return attr == "data"
	case "base":
		return attr == "href"
	case "link":
		if attr != "href" {
			return false
		}
		rel := attrOf(t, "rel")
		if rel == nil {
			return false
		}
		for _, tok := range asciiLowerTokens(htmltok.DecodeAttrValue(rel.Value)) {
			if tok == "stylesheet" {
				return true
			}
		}
	}
	return false
}

func urlAttr(name string) bool {
	switch name {
	case "href", "src", "action", "formaction", "srcset":
		return true
	}
	return false
}

// startTags returns pointers to the start tag tokens in order.
func startTags(res htmltok.Result) []*htmltok.Token {
	var out []*htmltok.Token
	for i := range res.Tokens {
		if res.Tokens[i].Type == htmltok.StartTag {
			out = append(out, &res.Tokens[i])
		}
	}
	return out
}

func checkOne(c *core.Ctx, text string, hs, is gen.DataSpec, verbose bool) {
	c.Eval(1)
	k := kase{Text: util.Q(text), Hostile: hs, Inert: is}
	rH := tx.Run(text, hs.Build())
	if verbose {
		fmt.Printf("  template: %s\n  hostile: %q err=%v parse=%v\n", text, rH.Out, rH.ExecErr, rH.ParseErr)
	}
	if rH.Panic != nil {
		c.Count("panics_skipped", 1)
		return
	}
	if rH.ParseErr != nil {
		c.Count("parse_errors", 1)
		return
	}
	c.Hist("hostile_result", tx.ErrClass(rH.ExecErr))
	if rH.ExecErr != nil {
		return
	}
	c.Count("accepted_hostile_executions", 1)
	if k14Shape(text) {
		// was the exclusion of known finding K14 until 631be5b; judged like every other case now
		c.Count("accepted_with_double_escaped_script_shape", 1)
	}
	rI := tx.Run(text, is.Build())
	// the output is read both by a parser without and by one with scripting (noscript)
	// ... and, where it has svg or math, by one that knows foreign content (there the raw-text
	// elements of HTML hold markup)
	for oi, opt := range []htmltok.Options{{}, {Scripting: true}, {Foreign: true}} {
		lo := strings.ToLower(rH.Out)
		if oi == 1 && !strings.Contains(lo, "<noscript") {
			continue
		}
		if oi == 2 && !strings.Contains(lo, "<svg") && !strings.Contains(lo, "<math") {
			continue
		}
		if oi == 2 && !c.Strict && countComments(htmltok.Tokenize(rH.Out, opt)) > countComments(htmltok.Tokenize(rH.Out, htmltok.Options{})) {
			// known finding K21 (C01) / K21b (C02): raw-text elements inside svg/math; the engine
			// keeps "<!--" in <svg><script>, a foreign-content-aware parser opens a comment there
			c.Count("foreign_pass_excluded_by_known:K21b", 1)
			continue
		}
		var inertTags []*htmltok.Token
		tokH := htmltok.Tokenize(rH.Out, opt)
		var tokI htmltok.Result
		if rI.OK() {
			tokI = htmltok.Tokenize(rI.Out, opt)
			inertTags = startTags(tokI)
		}
		hostTags := startTags(tokH)
		if len(inertTags) != len(hostTags) {
			inertTags = nil // structures differ (C01's business); no prefix information
		}
		tagIndex := map[*htmltok.Token]int{}
		for i, t := range hostTags {
			tagIndex[t] = i
		}
		// static prefix (decoded) of the hostile attribute's value according to the inert run
		staticPrefix := func(t *htmltok.Token, name string) (string, bool) {
			if inertTags == nil {
				return "", false
			}
			it := inertTags[tagIndex[t]]
			if it.Name != t.Name {
				return "", false
			}
			a := attrOf(it, name)
			if a == nil {
				return "", false
			}
			v := a.Value
			if loc := inertLeaf.FindStringIndex(v); loc != nil {
				v = v[:loc[0]]
			} else if strings.Contains(v, "about:invalid#zGoSafez") {
				v = v[:strings.Index(v, "about:invalid#zGoSafez")]
			}
			return htmltok.DecodeAttrValue(v), true
		}
		// 1. marker locations
		rendered := false
		in := tokH.Input
		var lastStart *htmltok.Token
		_ = lastStart
		for _, loc := range markerRe.FindAllStringIndex(in, -1) {
			rendered = true
			pos := loc[0]
			w := htmltok.Locate(tokH, pos)
			switch w.Kind {
			case "text":
				elem := enclosing(tokH, w.Tok)
				c.Hist("marker_location", "text:"+w.Mode+":"+elem)
				if w.Mode == "script" || w.Mode == "rawtext" && elem == "style" {
					c.Violation(k, "template %q: untrusted datum %s appears inside the body of a %s element: %q", text, in[loc[0]:loc[1]], elem, rH.Out)
					return
				}
			case "comment":
				c.Violation(k, "template %q: untrusted datum %s appears inside an HTML comment: %q", text, in[loc[0]:loc[1]], rH.Out)
				return
			case "attr-value":
				name := w.Attr.Name
				c.Hist("marker_location", "attr:"+name)
				if w.Dup {
					continue
				}
				if strings.HasPrefix(name, "on") || name == "style" || name == "srcdoc" {
					c.Violation(k, "template %q: untrusted datum %s appears inside the %s attribute of <%s>: %q", text, in[loc[0]:loc[1]], name, w.Tok.Name, rH.Out)
					return
				}
				if w.Tok.Type == htmltok.StartTag && loadsCode(w.Tok, name) {
					byMarker := htmltok.DecodeAttrValue(in[w.Attr.ValStart:pos])
					pre, ok := staticPrefix(w.Tok, name)
					if !ok {
						c.Count("origin_check_by_marker_only", 1)
						pre = byMarker
					}
					if !refs.SafeTRUPrefix(pre) || !refs.SafeTRUPrefix(byMarker) {
						c.Violation(k, "template %q: untrusted datum %s appears in %s of <%s>, which loads code, after the static prefix %q that does not fix the origin: %q", text, in[loc[0]:loc[1]], name, w.Tok.Name, pre, rH.Out)
						return
					}
				}
			case "doctype", "tag":
				c.Hist("marker_location", w.Kind)
			default:
				c.Hist("marker_location", w.Kind)
			}
		}
		// 2. URL-valued attributes: whole value, decoded, must not have the javascript scheme
		for ti, t := range hostTags {
			for ai := range t.Attrs {
				a := &t.Attrs[ai]
				if !urlAttr(a.Name) || !a.HasValue {
					continue
				}
				dataDependent := markerRe.MatchString(a.Value)
				if !dataDependent && inertTags != nil {
					if ia := attrOf(inertTags[ti], a.Name); ia != nil && ia.Value != a.Value {
						dataDependent = true
					}
				}
				if !dataDependent {
					continue
				}
				c.Count("url_attributes_checked", 1)
				dec := htmltok.DecodeAttrValue(a.Value)
				if a.Name == "srcset" {
					for _, cand := range refs.Srcset(dec) {
						if refs.Scheme(cand.URL) == "javascript" {
							c.Violation(k, "template %q: srcset of <%s> has the candidate %q with the javascript scheme: %q", text, t.Name, cand.URL, rH.Out)
							return
						}
					}
					continue
				}
				if refs.Scheme(dec) == "javascript" {
					c.Violation(k, "template %q: %s of <%s> decodes to %q, which has the javascript scheme: %q", text, a.Name, t.Name, dec, rH.Out)
					return
				}
			}
		}
		if rendered && oi == 0 {
			c.DistinctS(text, util.JSON(hs))
		}
	}
}

func countComments(r htmltok.Result) int {
	n := 0
	for _, t := range r.Tokens {
		if t.Type == htmltok.Comment {
			n++
		}
	}
	return n
}

// enclosing returns the name of the last start tag before a text token.
func enclosing(res htmltok.Result, tok *htmltok.Token) string {
	name := ""
	for i := range res.Tokens {
		t := &res.Tokens[i]
		if t == tok {
			break
		}
		if t.Type == htmltok.StartTag {
			name = t.Name
		}
	}
	return name
}

var breakers = []string{"\">", "'>", "\"", "'", ">", "<", "</script>", "</style>", "-->", "<!--", "<script>", " onmouseover=alert(1) ", "\" onx=\"", "`", "=", " ", "\n", "\t", "&", ";", "}", "{", "*/", "/*", "\\", "alert(1)", "expression(", "url(", "\x00", "\xff"}

var dangerous = []string{
	"javascript:alert(1)", "JaVaScRiPt:alert(1)", "JAVASCRIPT:alert(1)", " javascript:alert(1)", "\tjavascript:alert(1)", "\x01javascript:alert(1)", "java\tscript:alert(1)", "java\nscript:alert(1)", "javascript\r:alert(1)",
	"javascript&colon;alert(1)", "javascript&#58;alert(1)", "java&Tab;script:alert(1)", "javascript:", "javascript://%0aalert(1)", "vbscript:x", "data:text/html,<script>alert(1)</script>",
	"//evil.example/x.js", "https://evil.example/x.js", "http://evil.example/", "/\\evil.example/x", "\\\\evil.example\\x", "..", "../../x", ".", "%2e%2e/", "x.css", "/same/origin.js", "?q=1", "#frag",
}

func hostileLeaf(r *core.Rng) func(i int) string {
	return func(i int) string {
		m := fmt.Sprintf("zQ%dz", i)
		switch r.Intn(5) {
		case 0, 1:
			return m + gen.Soup(r, breakers, r.Intn(4))
		case 2:
			d := r.Pick(dangerous)
			return d + m
		case 3:
			d := r.Pick(dangerous)
			cut := r.Intn(len(d) + 1)
			return d[cut:] + m // a tail of a dangerous string: the head may come from another leaf
		default:
			d := r.Pick(dangerous)
			cut := r.Intn(len(d) + 1)
			return d[:cut] // a head without marker; the marker comes with the tail in another leaf
		}
	}
}

// ---------------------------------------------------------------- W1: systematic family

type target struct{ open, attr, close string }

var targets = []target{
	{`<a `, "href", `>x</a>`}, {`<area `, "href", `>`}, {`<img `, "src", `>`}, {`<audio `, "src", `></audio>`}, {`<video `, "src", `></video>`}, {`<source `, "src", `>`}, {`<input type="image" `, "src", `>`},
	{`<form `, "action", `></form>`}, {`<button `, "formaction", `>x</button>`}, {`<input `, "formaction", `>`}, {`<img `, "srcset", `>`}, {`<source `, "srcset", `>`},
	{`<link rel="icon" `, "href", `>`}, {`<link rel="alternate" `, "href", `>`}, {`<link rel="stylesheet" `, "href", `>`}, {`<link rel="alternate stylesheet" `, "href", `>`}, {`<link rel="STYLESHEET" `, "href", `>`}, {`<link rel="icon &#115;tylesheet" `, "href", `>`},
	{`<link rel="stylesheet" rel="icon" `, "href", `>`}, {`<link rel="icon" rel="stylesheet" `, "href", `>`}, {`<link rel=stylesheet `, "href", `>`}, {`<link `, "href", ` rel="stylesheet">`}, {`<link rel="{{$.S3}}" `, "href", `>`}, {`<link rel="{{$.S3}} icon" `, "href", `>`},
	{`<link rel="{{if $.C0}}icon{{else}}stylesheet{{end}}" `, "href", `>`}, {`<link rel="preload" as="script" `, "href", `>`},
	{`<script `, "src", `></script>`}, {`<iframe `, "src", `></iframe>`}, {`<frame `, "src", `>`}, {`<embed `, "src", `>`}, {`<object `, "data", `></object>`}, {`<base `, "href", `>`},
	{`<p `, "style", `>x</p>`}, {`<p `, "onclick", `>x</p>`}, {`<iframe `, "srcdoc", `></iframe>`}, {`<p `, "title", `>x</p>`}, {`<svg><a `, "xlink:href", `>x</a></svg>`}, {`<a `, "HREF", `>x</a>`}, {`<IMG `, "SrC", `>`}, {`<x-y `, "href", `></x-y>`}, {`<a `, "ping", `>x</a>`},
	{`<div `, "src", `>x</div>`}, {`<track `, "src", `>`}, {`<video `, "poster", `></video>`}, {`<blockquote `, "cite", `>x</blockquote>`}, {`<body `, "background", `>`}, {`<html `, "manifest", `>`},
}

var prefixesW1 = []string{"", "", "/", "/p/", "/p?q=", "/p#", "https://example.com/", "https://example.com/a?x=", "//example.com/", "mailto:", "?", "#", "java", "javascript:", "JAVASCRIPT&colon;", "x", "ht", "https:", "/a&#10;", "/p?q=%", "/p&amp;", "&#106;avascript:", " ", "data:", "/x/.", "/a/%2e", "java&#115;cript", "&#106;", "&#x4a;ava", "&#74;&#x41;VA&#83;cript"}

var shapes = []struct {
	tmpl  string // uses P0,P1,P2 placeholders for the parts
	parts int
}{
	{`P0`, 1}, {`P0P1`, 2}, {`P0P1P2`, 3}, {`P0/P1`, 2}, {`P0 P1`, 2}, {`P0&amp;P1`, 2}, {`P0:P1`, 2}, {`P0&colon;P1`, 2}, {`P0&#58;P1`, 2}, {`P0t:P1`, 2}, {`P0:`, 1}, {`P0:alert(1)`, 1}, {`P0&Tab;:x`, 1}, {`P0x`, 1}, {`P0, P1`, 2}, {`P0 1x, P1 2x`, 2},
	{`{{if $.C1}}P0{{end}}P1`, 2}, {`{{if $.C1}}P0{{else}}x{{end}}P1`, 2}, {`{{range $.L0}}{{.E0}}{{end}}`, 0}, {`{{range $.L0}}{{.E0}}{{.E1}}{{end}}`, 0}, {`{{range $.L0}}{{.E0}}/{{end}}`, 0}, {`P0{{range $.L0}}{{.E0}}{{end}}`, 1},
	{`{{with $.S0}}{{.}}{{end}}P1`, 2}, {`{{template "leaf" $.S0}}P1`, 2}, {`P0{{template "leaf" $.S1}}`, 2}, {`{{template "two" $}}`, 0}, {`{{template "leaf" $.S0}}{{template "leaf" $.S1}}`, 2}, {`{{template "leaf" $.S0}}/{{template "leaf" $.S1}}`, 2}, {`{{template "leaf" $.S0}}" title="x" data-x="/p/{{template "leaf" $.S1}}`, 2}, {`/q/{{template "leaf" $.S0}}"></a><a href="{{template "leaf" $.S1}}`, 2}, {`{{$.S0 | urlquery}}P1`, 2}, {`{{if $.C1}}{{else}}java{{end}}P0`, 1}, {`{{if $.C1}}/x/{{else}}P0{{end}}:alert(1)`, 1}, {`{{if $.C1}}P0{{else}}/x/{{end}}:alert(1)`, 1}, {`{{if $.C1}}{{else}}x{{end}}P0`, 1}, {`{{if $.C1}}/p/{{else}}{{if $.C0}}/p/{{else}}/p?q={{end}}{{end}}P0`, 1}, {`{{if $.C1}}P0{{else}}x{{end}}y:P1`, 2}, {`{{if $.C1}}y{{else}}P0t{{end}}:x`, 1}, {`{{if $.C1}}P0t{{else}}y{{end}}:x`, 1}, {`{{if $.C0}}{{if $.C1}}/a/{{else}}P0{{end}}{{else}}/b/{{end}}:x`, 1}, {`P0&#x3{{/* c */}}a;alert(1)`, 1}, {`P0&col{{if $.C1}}on;{{end}}x`, 1}, {`{{$.S0 | html}}P1`, 2}, {`{{print $.S0 $.S1}}`, 0},
	// a character reference for ":" torn by an empty branch or a variable assignment
	{`P0&#5{{if $.C1}}{{end}}8;alert(1)`, 1}, {`P0&col{{$y := 1}}on;alert(1)`, 1}, {`P0&#x3{{with $.C1}}{{end}}a;alert(1)`, 1}, {`P0&#5{{template "empty"}}8;alert(1)`, 1},
	// the action that starts the value sits in the else branch; both branches end in the same static value
	{`{{if $.C1}}{{else}}P0{{end}}P1`, 2}, {`{{if $.C1}}{{else}}P0{{end}}:alert(1)`, 1}, {`{{with $.C1}}{{else}}P0{{end}}P1`, 2}, {`{{range $.L2}}{{else}}P0{{end}}P1`, 2}, {`{{if $.C1}}{{else}}{{template "leaf" $.S0}}{{end}}P1`, 2}, {`{{if $.C1}}{{else}}{{if $.C0}}{{else}}P0{{end}}{{end}}P1`, 2},
}

const helpersW1 = `{{define "leaf"}}{{.}}{{end}}{{define "two"}}{{$.S0}}{{$.S1}}{{end}}{{define "empty"}}{{end}}`

func w1Template(t target, q, pre string, shape string) string {
	s := shape
	for i := 0; i < 3; i++ {
		s = strings.ReplaceAll(s, fmt.Sprintf("P%d", i), fmt.Sprintf("{{$.S%d}}", i))
	}
	return helpersW1 + "<p>" + t.open + t.attr + "=" + q + pre + s + q + t.close + "</p>"
}

// w1Data makes the assignments for one dangerous string split over S0,S1,S2 (and the
// elements of L0) at the given cut points.
func w1Data(d string, c1, c2 int, tailMarker bool) (gen.DataSpec, gen.DataSpec) {
	parts := []string{d[:c1], d[c1:c2], d[c2:]}
	if tailMarker {
		parts[2] += "zQ9z"
	}
	var hs, is gen.DataSpec
	for i := 0; i < gen.MaxS; i++ {
		v, w := "zQ7z", fmt.Sprintf("w%d", i+20)
		if i < 3 {
			v, w = parts[i], fmt.Sprintf("w%d", i+1)
			if v == "" {
				w = ""
			}
		}
		if i == 3 {
			v = "stylesheet"
			w = "stylesheet"
		}
		hs.S, is.S = append(hs.S, util.Q(v)), append(is.S, util.Q(w))
	}
	for i := 0; i < gen.MaxC; i++ {
		b := (c1+i)%2 == 0
		hs.C, is.C = append(hs.C, b), append(is.C, b)
	}
	var hl, il [][2]string
	for i := 0; i < 3; i++ {
		if i < 2 {
			hl = append(hl, [2]string{util.Q(parts[i]), util.Q("")})
			il = append(il, [2]string{util.Q(fmt.Sprintf("w%d", 10+i)), util.Q("")})
		} else {
			hl = append(hl, [2]string{util.Q(parts[2]), util.Q("")})
			il = append(il, [2]string{util.Q("w12"), util.Q("")})
		}
	}
	for i := 0; i < gen.MaxL; i++ {
		hs.L, is.L = append(hs.L, hl), append(is.L, il)
	}
	return hs, is
}

func run(c *core.Ctx) {
	// W1
	splitStrings := []string{"javascript", "javascrip", "javascript:alert(1)", "JaVaScRiPt:alert(1)", "java\tscript:x", " javascript:x", "//evil.example/x.js", "https://evil.example/x.js", "..", "../x", "x.css", "/ok.js"}
	idx := 0
	r1 := c.Rng("w1")
	rt := c.Rng("torn-text")
	for _, t := range targets {
		for _, q := range []string{`"`, `'`} {
			for _, pre := range prefixesW1 {
				for _, sh := range shapes {
					idx++
					if !c.Mine(idx) {
						continue
					}
					text := w1Template(t, q, pre, sh.tmpl)
					c.Journal(util.JSON(map[string]string{"template": text}))
					// whole strings in the first part (the static text of the shape may complete them)
					for wi, d := range []string{"javascript", "javascrip", "javascript:alert(1)", "JaVaScRiPt:x"} {
						hs, is := w1Data(d, len(d), len(d), true)
						hs.C[1], is.C[1] = wi%2 == 0, wi%2 == 0
						checkOne(c, text, hs, is, false)
						hs2, is2 := w1Data(d, len(d), len(d), true)
						hs2.C[1], is2.C[1] = wi%2 == 1, wi%2 == 1
						checkOne(c, text, hs2, is2, false)
					}
					nsplit := c.N(4, 12)
					for n := 0; n < nsplit; n++ {
						d := splitStrings[(idx*7+n*5)%len(splitStrings)]
						c1 := r1.Intn(len(d) + 1)
						c2 := c1 + r1.Intn(len(d)-c1+1)
						if n == 0 {
							c1, c2 = len(d), len(d) // whole string in the first part
						}
						if n == 1 && len(d) > 4 {
							c1, c2 = 4, len(d) // "java" | "script:..."
						}
						hs, is := w1Data(d, c1, c2, true)
						if n == 2 && len(d) > 4 {
							// the first part carries the tail: static text of the template may supply the head
							hs.S[0] = util.Q(d[4:] + "zQ8z")
							is.S[0] = util.Q("w1")
						}
						checkOne(c, text, hs, is, false)
					}
					if idx%2 == 0 {
						// the same cell with its static text torn by template comments
						torn := gen.SplitText(rt, text, 1+rt.Intn(2))
						c.Journal(util.JSON(map[string]string{"template": torn}))
						c.Count("cells_with_torn_text", 1)
						for n := 0; n < 3; n++ {
							d := splitStrings[(idx*3+n)%len(splitStrings)]
							c1 := rt.Intn(len(d) + 1)
							hs, is := w1Data(d, c1, len(d), true)
							if n == 0 {
								hs, is = w1Data(d, len(d), len(d), true)
							}
							checkOne(c, torn, hs, is, false)
						}
					}
					if c.Thorough() && pre == "" && sh.parts >= 2 {
						d := "javascript:x"
						_ = d
						for c1 := 0; c1 <= len(d); c1++ {
							for c2 := c1; c2 <= len(d); c2++ {
								hs, is := w1Data(d, c1, c2, true)
								checkOne(c, text, hs, is, false)
							}
						}
					}
				}
			}
		}
	}
	// tag names split over template nodes: the pieces form one name in the output
	splitNames := []string{
		`<s{{/**/}}cript>{{$.S0}}</script>`, `<s{{if $.C0}}cript{{end}}>{{$.S0}}</script>`, `<s{{if $.C1}}cript{{end}}>{{$.S0}}</script>`, `<s{{/**/}}tyle>{{$.S0}}</style>`, `<scr{{/* c */}}ipt>{{$.S0}}</script>`,
		`<s{{/**/}}cript src="{{$.S0}}"></script>`, `<i{{/**/}}frame src="{{$.S0}}"></iframe>`, `<i{{/**/}}frame srcdoc="{{$.S0}}"></iframe>`, `<b{{/**/}}ase href="{{$.S0}}">`, `<a{{/**/}}pplet code="{{$.S0}}">`, `<l{{/**/}}ink rel="stylesheet" href="{{$.S0}}">`,
		`<e{{/**/}}mbed src="{{$.S0}}">`, `<o{{/**/}}bject data="{{$.S0}}"></object>`, `<a{{with $.S1}}rea{{end}} href="{{$.S0}}">`, `<p{{/**/}} onclick="{{$.S0}}">x</p>`, `<p on{{/**/}}click="{{$.S0}}">x</p>`, `<p st{{/**/}}yle="{{$.S0}}">x</p>`,
		`<a href="{{$.S0}}{{if $.C0}}&#{{end}}58;alert(1)">x</a>`, `<a href="{{$.S0}}{{if $.C1}}{{else}}&#x{{end}}3a;alert(1)">x</a>`, `<form action="{{$.S0}}{{if $.C0}}&colo{{end}}n;alert(1)"></form>`, `<a href="{{$.S0}}{{range $.L0}}&#{{end}}58;alert(1)">x</a>`,
		`<a href="{{$.S0}}{{if $.C0}}&Ta{{end}}b;:alert(1)">x</a>`, `<a href="{{$.S0}}&#{{/**/}}58;alert(1)">x</a>`, `<a href="{{$.S0}}{{with $.S1}}&#5{{end}}8;alert(1)">x</a>`,
		`<iframe src{{/**/}}doc="{{$.S0}}"></iframe>`, `<s{{template "leaf" "cript"}}>{{$.S0}}</script>`, `{{if $.C0}}<s{{else}}<b{{end}}cript>{{$.S0}}</script>`, `<a h{{/**/}}ref="{{$.S0}}">x</a>`,
	}
	for i, text := range splitNames {
		if !c.Mine(i) {
			continue
		}
		for n := 0; n < 16; n++ {
			hs, is := w1Data([]string{"zQ9zalert(1)", "javascript:alert(1)", "//evil.example/x.js", "javascript"}[n/2%4], 0, 0, false)
			hs.S[0], hs.S[2] = hs.S[2], hs.S[0] // the whole string in S0
			hs.C[0], is.C[0] = n%2 == 0, n%2 == 0
			checkOne(c, helpersW1+text, hs, is, false)
		}
	}
	c.SetExhaustive("W1 family: targets x quotes x prefixes x shapes")
	// W2
	r := c.Rng("w2")
	nT := c.N(30000, 300000) / c.NShards
	nA := c.N(6, 14)
	for i := 0; i < nT; i++ {
		o := gen.TmplOpts{Lexical: 20, Control: 40, Helpers: 30, Tear: 15, Odd: 10, BadPos: 12, MaxDepth: 3, HelperInAttrOnce: false, URLHeavy: i%2 == 0}
		t := gen.GenTemplate(r, o)
		c.Journal(util.JSON(map[string]string{"template": t.Text}))
		for a := 0; a < nA; a++ {
			hs, is := gen.GenData(r, hostileLeaf(r))
			checkOne(c, t.Text, hs, is, false)
			if i < 2 && a == 0 {
				c.Sample(kase{Text: util.Q(t.Text), Hostile: hs, Inert: is})
			}
		}
	}
}
