// Package c10 monitors HTMLEscaped / HTMLConcat (property C10).
package c10

import (
	"encoding/json"
	"fmt"
	"html"
	"strings"
	"unicode/utf8"

	"github.com/google/safehtml"

	"verif/core"
	"verif/gen"
	"verif/oracle/htmltok"
	"verif/oracle/refs"
)

type kase struct {
	S      string   `json:"s_quoted"` // strconv-quoted input (arbitrary bytes)
	Concat []string `json:"concat_quoted,omitempty"`
}

func q(s string) string { return fmt.Sprintf("%+q", s) }

func unq(s string) string {
	var out string
	if _, err := fmt.Sscanf(s, "%q", &out); err != nil {
		return s
	}
	return out
}

func init() {
	core.Register(&core.Monitor{
		ID:    "C10",
		Level: "exploration",
		Rule: "inputs: every code point 0..0x10FFFF (surrogates as their invalid 3-byte encodings) alone and between ASCII neighbours, every 1- and 2-byte string, " +
			"(thorough) every 3-byte string with a lead byte >=0x80, plus seeded hostile soups/mutations up to 4 KB and HTMLConcat argument lists; " +
			"a case is non-trivial if the input contains a byte that must be escaped, replaced or is part of an ill-formed sequence; distinct by input bytes",
		Assumptions: []string{
			"oracle: refs.Coerce (Unicode Table 3-7 decoder + forbidden set from the property text), Go standard library html.UnescapeString, htmltok (own WHATWG tokenizer)",
		},
		Run:    run,
		Replay: replay,
		MinDistinct: func(t string) int64 {
			return 100000
		},
	})
}

func replay(c *core.Ctx, raw json.RawMessage) error {
	var k kase
	if err := json.Unmarshal(raw, &k); err != nil {
		return err
	}
	if len(k.Concat) > 0 {
		var ss []string
		for _, s := range k.Concat {
			ss = append(ss, unq(s))
		}
		checkConcat(c, ss)
		return nil
	}
	check(c, unq(k.S), true)
	return nil
}

func nontrivial(s string) bool {
	for i := 0; i < len(s); i++ {
		b := s[i]
		if b >= 0x7f || b < 0x20 || b == '<' || b == '>' || b == '&' || b == '"' || b == '\'' {
			return true
		}
	}
	return false
}

var emitted = map[string]bool{"&": true, "<": true, ">": true, "\"": true, "'": true}

// check runs every clause of the property on one input.
func check(c *core.Ctx, s string, tok bool) {
	c.Eval(1)
	c.Note(func() interface{} { return kase{S: q(s)} })
	var out string
	if p := core.Recover(func() { out = safehtml.HTMLEscaped(s).String() }); p != nil {
		c.Violation(kase{S: q(s)}, "HTMLEscaped panicked on %+q: %v", s, p)
		return
	}
	if nontrivial(s) {
		c.DistinctS(s)
	}
	// (a) no markup-significant characters; every & starts a reference to one of & < > " '
	for i := 0; i < len(out); i++ {
		switch out[i] {
		case '<', '>', '"', '\'':
			c.Violation(kase{S: q(s)}, "HTMLEscaped(%+q)=%+q contains %q", s, out, out[i])
			return
		case '&':
			j := strings.IndexByte(out[i:], ';')
			if j < 0 || j > 8 {
				c.Violation(kase{S: q(s)}, "HTMLEscaped(%+q)=%+q has an '&' that does not start a terminated reference", s, out)
				return
			}
			ref := out[i : i+j+1]
			if !emitted[html.UnescapeString(ref)] {
				c.Violation(kase{S: q(s)}, "HTMLEscaped(%+q)=%+q contains the reference %q, not one of the five escapes", s, out, ref)
				return
			}
		}
	}
	// (b) interchange-valid UTF-8
	if !utf8.ValidString(out) {
		c.Violation(kase{S: q(s)}, "HTMLEscaped(%+q)=%+q is not valid UTF-8", s, out)
		return
	}
	for _, r := range out {
		if refs.Forbidden(r) {
			c.Violation(kase{S: q(s)}, "HTMLEscaped(%+q)=%+q contains forbidden code point U+%04X", s, out, r)
			return
		}
	}
	// (c) round trip
	want := refs.Coerce(s)
	if got := html.UnescapeString(out); got != want {
		c.Violation(kase{S: q(s)}, "unescape(HTMLEscaped(%+q))=%+q, want %+q", s, got, want)
		return
	}
	if !tok {
		return
	}
	// (d) embedding
	for _, e := range embeddings {
		doc := e.pre + out + e.post
		res := htmltok.Tokenize(doc, htmltok.Options{})
		if msg := e.verify(res, out); msg != "" {
			c.Violation(kase{S: q(s)}, "HTMLEscaped(%+q)=%+q placed in %s: %s", s, out, e.name, msg)
			return
		}
	}
}

type embedding struct {
	name, pre, post string
	verify          func(res htmltok.Result, out string) string
}

func shape(res htmltok.Result) string {
	var b strings.Builder
	for _, t := range res.Tokens {
		switch t.Type {
		case htmltok.Text:
			b.WriteString("T ")
		case htmltok.StartTag:
			b.WriteString("<" + t.Name)
			for _, a := range t.Attrs {
				b.WriteString(" " + a.Name)
			}
			b.WriteString("> ")
		case htmltok.EndTag:
			b.WriteString("</" + t.Name + "> ")
		case htmltok.Comment:
			b.WriteString("C ")
		case htmltok.Doctype:
			b.WriteString("D ")
		}
	}
	return strings.TrimSpace(b.String()) + " @" + res.FinalState
}

var embeddings = []embedding{
	{"element content", "<p>", "</p><i>", func(res htmltok.Result, out string) string {
		want := "<p> T </p> <i> @data"
		if out == "" {
			want = "<p> </p> <i> @data"
		}
		if g := shape(res); g != want {
			return "token shape " + g + ", want " + want
		}
		if out != "" && htmltok.Preprocess(out) != res.Tokens[1].Data {
			return fmt.Sprintf("text run is %+q", res.Tokens[1].Data)
		}
		return ""
	}},
	{"RCDATA content", "<textarea>", "</textarea><i>", func(res htmltok.Result, out string) string {
		want := "<textarea> T </textarea> <i> @data"
		if out == "" {
			want = "<textarea> </textarea> <i> @data"
		}
		if g := shape(res); g != want {
			return "token shape " + g + ", want " + want
		}
		if out != "" && htmltok.Preprocess(out) != res.Tokens[1].Data {
			return fmt.Sprintf("text run is %+q", res.Tokens[1].Data)
		}
		return ""
	}},
	{"double-quoted attribute", "<p title=\"", "\" id=x><i>", func(res htmltok.Result, out string) string {
		if g := shape(res); g != "<p title id> <i> @data" {
			return "token shape " + g
		}
		if v := res.Tokens[0].Attrs[0].Value; v != htmltok.Preprocess(out) {
			return fmt.Sprintf("attribute value is %+q", v)
		}
		return ""
	}},
	{"single-quoted attribute", "<p title='", "' id=x><i>", func(res htmltok.Result, out string) string {
		if g := shape(res); g != "<p title id> <i> @data" {
			return "token shape " + g
		}
		if v := res.Tokens[0].Attrs[0].Value; v != htmltok.Preprocess(out) {
			return fmt.Sprintf("attribute value is %+q", v)
		}
		return ""
	}},
}

func checkConcat(c *core.Ctx, parts []string) {
	c.Eval(1)
	c.Note(func() interface{} {
		k := kase{}
		for _, p := range parts {
			k.Concat = append(k.Concat, q(p))
		}
		return k
	})
	hs := make([]safehtml.HTML, len(parts))
	want := ""
	for i, p := range parts {
		hs[i] = safehtml.HTMLEscaped(p)
		want += hs[i].String()
	}
	got := safehtml.HTMLConcat(hs...).String()
	if got != want {
		var qs []string
		for _, p := range parts {
			qs = append(qs, q(p))
		}
		c.Violation(kase{Concat: qs}, "HTMLConcat of %d values = %+q, want plain concatenation %+q", len(parts), got, want)
	}
	c.DistinctS(append([]string{"concat"}, parts...)...)
}

func encodeCP(r rune) string {
	if r >= 0xD800 && r <= 0xDFFF {
		return string([]byte{0xE0 | byte(r>>12), 0x80 | byte(r>>6)&0x3F, 0x80 | byte(r)&0x3F})
	}
	return string(r)
}

func run(c *core.Ctx) {
	// exhaustive: every code point, alone and embedded
	idx := 0
	for r := rune(0); r <= 0x10FFFF; r++ {
		idx++
		if !c.Mine(idx) {
			continue
		}
		e := encodeCP(r)
		check(c, e, true)
		check(c, "a"+e+"<", r < 0x3000 || r%7 == 0)
	}
	c.SetExhaustive("all code points 0..0x10FFFF alone and as a<cp><")
	c.Sample(map[string]string{"input": q(encodeCP(0xFDD0)), "output": q(safehtml.HTMLEscaped(encodeCP(0xFDD0)).String())})
	// exhaustive: 1- and 2-byte strings
	for a := 0; a < 256; a++ {
		if c.Mine(a) {
			check(c, string([]byte{byte(a)}), true)
		}
		for b := 0; b < 256; b++ {
			if c.Mine(a*256 + b) {
				check(c, string([]byte{byte(a), byte(b)}), true)
			}
		}
	}
	c.SetExhaustive("all byte strings of length 1 and 2")
	if c.Thorough() {
		for a := 0x80; a < 256; a++ {
			for b := 0; b < 256; b++ {
				if !c.Mine(a*256 + b) {
					continue
				}
				for d := 0; d < 256; d++ {
					check(c, string([]byte{byte(a), byte(b), byte(d)}), d%16 == 0)
				}
			}
		}
		c.SetExhaustive("all 3-byte strings with first byte >= 0x80")
		// 4-byte lead bytes with all second bytes and boundary third/fourth bytes
		edge := []byte{0x00, 0x7f, 0x80, 0x8f, 0x90, 0x9f, 0xa0, 0xbf, 0xc0, 0xff}
		for a := 0xF0; a < 256; a++ {
			for b := 0; b < 256; b++ {
				if !c.Mine(a*256 + b) {
					continue
				}
				for _, d := range edge {
					for _, e := range edge {
						check(c, string([]byte{byte(a), byte(b), d, e}), false)
					}
				}
			}
		}
	}
	// the interesting character at particular offsets; large HTMLConcat calls followed by small ones
	bi := 0
	for _, n := range gen.BoundaryLens() {
		for _, pad := range []string{"a", " ", "\u00e9", "&"} {
			for _, sp := range []string{"<", "\x00", "\xff", "&", "\"", "\ufdd0", "\r\n", "\xe2\x82"} {
				bi++
				if !c.Mine(bi) {
					continue
				}
				check(c, gen.Pad(pad, n)+sp, n < 300)
				check(c, gen.Pad(pad, n)+sp+"tail", false)
			}
		}
	}
	if c.Shard == 0 {
		big := gen.Pad("x<y&z ", 40960)
		for i := 0; i < 3; i++ {
			checkConcat(c, []string{big, big})
			checkConcat(c, []string{"a", "<b>"})
			checkConcat(c, []string{big})
			checkConcat(c, []string{"c", "d", "e"})
			checkConcat(c, []string{gen.Pad("q", 70000), "r"})
			checkConcat(c, []string{"s", "t"})
		}
	}
	// seeded hostile strings
	r := c.Rng("soup")
	n := c.N(200000, 2000000) / c.NShards
	for i := 0; i < n; i++ {
		var s string
		switch r.Intn(4) {
		case 0:
			s = gen.RandBytes(r, r.Intn(64))
		case 1:
			s = gen.Mutate(r, gen.Soup(r, gen.HTMLAtoms, r.Intn(40)), gen.HTMLAtoms)
		case 2:
			s = gen.Soup(r, gen.HTMLAtoms, r.Intn(400))
			if len(s) > 4096 {
				s = s[:4096]
			}
		default:
			s = gen.Soup(r, gen.HTMLAtoms, r.Intn(8))
		}
		check(c, s, true)
		if i < 2 {
			c.Sample(map[string]string{"input": q(s), "output": q(safehtml.HTMLEscaped(s).String())})
		}
		if i%10 == 0 {
			k := r.Intn(5)
			parts := make([]string, k)
			for j := range parts {
				parts[j] = gen.Hostile(r)
			}
			checkConcat(c, parts)
		}
	}
}
