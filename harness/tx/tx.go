// Package tx runs the template engine under observation.
package tx

import (
	"bytes"
	"fmt"
	"strings"
	ttemplate "text/template"

	"github.com/google/safehtml/template"
	"github.com/google/safehtml/template/uncheckedconversions"

	"verif/core"
)

// Result of one execution.
type Result struct {
	Out      string
	ParseErr error
	ExecErr  error
	Panic    interface{}
}

// OK reports a clean successful execution.
func (r Result) OK() bool { return r.ParseErr == nil && r.ExecErr == nil && r.Panic == nil }

// Parse parses text into a fresh set named "root".
func Parse(text string) (t *template.Template, err error, pn interface{}) {
	pn = core.Recover(func() {
		t, err = template.New("root").ParseFromTrustedTemplate(uncheckedconversions.TrustedTemplateFromStringKnownToSatisfyTypeContract(text))
	})
	return
}

// Run parses text into a fresh set and executes the root template with data.
func Run(text string, data interface{}) Result {
	t, err, pn := Parse(text)
	if pn != nil {
		return Result{Panic: pn}
	}
	if err != nil {
		return Result{ParseErr: err}
	}
	return Exec(t, data)
}

// Exec executes t with data.
func Exec(t *template.Template, data interface{}) Result {
	var r Result
	var b bytes.Buffer
	r.Panic = core.Recover(func() { r.ExecErr = t.Execute(&b, data) })
	r.Out = b.String()
	return r
}

// RunText renders the same text with text/template (the author's own markup with the
// values dropped in verbatim); html and urlquery are text/template builtins.
func RunText(text string, data interface{}) (string, error) {
	t, err := ttemplate.New("root").Parse(text)
	if err != nil {
		return "", err
	}
	var b bytes.Buffer
	var perr interface{}
	perr = core.Recover(func() { err = t.Execute(&b, data) })
	if perr != nil {
		return "", fmt.Errorf("panic: %v", perr)
	}
	return b.String(), err
}

// ErrClass gives a short class of an engine error for histograms.
func ErrClass(err error) string {
	if err == nil {
		return "ok"
	}
	s := err.Error()
	for _, k := range []string{"ends in a non-text context", "branches end in different contexts", "on range loop re-entry", "unquoted attribute values disallowed", "actions must not affect element or attribute names",
		"actions must not occur in the", "actions must not occur directly after another action", "might be interpreted as part of a scheme", "contains an unsafe scheme", "ambiguous URL prefix", "whitespace or control", "incomplete HTML character reference",
		"incomplete percent-encoding", "disallowed TrustedResourceURL prefix", "partial substitutions are disallowed", "predefined escaper", "no such template", "incomplete or empty template", "cannot compute output context",
		"in unquoted attr", "in attribute name", "expected space, attr name", "expected a safehtml.", "expected one of the following strings", "cannot substitute", "is unimplemented", "conditional branch", "JS template", "CSP", "is undefined", "cannot Parse after Execute", "cannot Clone"} {
		if strings.Contains(s, k) {
			return k
		}
	}
	if len(s) > 60 {
		s = s[:60]
	}
	return s
}
