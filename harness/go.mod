module verif

go 1.21

require (
	github.com/google/safehtml v0.0.0
	golang.org/x/text v0.3.3 // indirect
)

replace github.com/google/safehtml => /repo
