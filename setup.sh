#!/bin/bash
# MANIFEST.setup_cmd: build the framework offline from files on disk and warm the
# build cache (normal and race-instrumented), then run the oracle self-tests.
set -eu
cd "$(dirname "$(readlink -f "$0")")"
export VERIF_ROOT="$PWD"
export GOFLAGS=-mod=mod GOPROXY=off GOSUMDB=off GOTOOLCHAIN=local CGO_ENABLED=1
mkdir -p .build .run replay evidence
cp /repo/go.sum harness/go.sum
cd harness
go run ./cmd/apigen /repo > mon/c19/reg/registry_gen.go
go build -tags verif -o ../.build/vcheck ./cmd/vcheck
go build -tags verif -race -o ../.build/vcheck-race ./cmd/vcheck
go test -count=1 ./oracle/... 
echo "setup ok: monitors: $(../.build/vcheck list)"
