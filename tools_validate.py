#!/usr/bin/env python3
"""Validate MANIFEST.json and evidence files against the schemas in /root/.vp."""
import json, sys, glob
import jsonschema
ms = json.load(open('/root/.vp/MANIFEST.schema.json'))
es = json.load(open('/root/.vp/EVIDENCE.schema.json'))
m = json.load(open('/verif/MANIFEST.json'))
jsonschema.validate(m, ms)
props = [json.loads(l)['id'] for l in open('/verif/properties.jsonl')]
claimed = [c['property_id'] for c in m['checks']]
na = [n['property_id'] for n in m.get('not_applicable', [])]
assert sorted(claimed + na) == sorted(props), (sorted(claimed+na), props)
print("MANIFEST ok: claimed", claimed, "not_applicable", na)
bad = 0
for c in m['checks']:
    f = c['evidence_file']
    try:
        e = json.load(open(f))
        jsonschema.validate(e, es)
        assert e['property_id'] == c['property_id']
        assert e['level'] == c['level_claimed']['category'], (e['level'], c['level_claimed']['category'])
        print("evidence ok:", f, e['tier'], e['coverage'].get('evaluations'), e['coverage'].get('distinct_nontrivial'), 'violations', e.get('violations'))
    except Exception as ex:
        bad += 1
        print("evidence BAD:", f, str(ex)[:300])
sys.exit(1 if bad else 0)
